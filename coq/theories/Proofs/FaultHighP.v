(* C12 for the high level API (select.go, indexed_select.go, sqlittle.go): every operation, run against a
   pager on which some page reads fail that would have succeeded, either behaves exactly as without the
   faults or fails, having given the caller's callback a prefix of what the fault-free run gives it.
   The nested lookups (rowid lookups / primary key lookups from inside the index callback) and the read
   of sqlite_master go through the same faulty pager. *)
From SQ Require Import Model.Base Model.Varint Model.Record Model.Payload Model.Btree
     Model.Page Model.Cmp Model.Low Model.High Spec.Flat Spec.Deliver
     Proofs.BtreeP Proofs.DeliverP Proofs.LowP Proofs.FaultP Proofs.FaultMinP.

Section FaultHigh.
  Variables pg' pg : Z -> res (list byte).
  Variables op' op : Z -> res page.
  Variable npages : nat.
  Hypothesis Hpg : forall n, le_res (pg' n) (pg n).
  Hypothesis Hop : forall n, le_res (op' n) (op n).

  Section Scans.
    Variable S : Type.
    Variable ext : S -> S -> Prop.
    Hypothesis ext_refl : forall s, ext s s.
    Hypothesis ext_trans : forall a b c, ext a b -> ext b c -> ext a c.
    Notation ole := (out_le S ext).
    Notation grw := (grows S ext).

    (* the low level scans with two callbacks, the faulty run's one failing no later than the other *)
    Lemma table_scan_le root (cb' cb : Z -> record -> S -> flow * S) :
      (forall k r s, ole (cb' k r s) (cb k r s)) -> (forall k r, grw (cb k r)) ->
      forall s, ole (table_scan pg' op' npages S root cb' s) (table_scan pg op npages S root cb s).
    Proof.
      intros Hle Hg s. unfold table_scan.
      assert (Hg2 : forall k pl, grw (fun s => match load pg npages pl with Ok rec => cb k rec s | Err e => (Fail e, s) end)).
      { intros k pl s0. destruct (load pg npages pl); cbn [snd]; [apply Hg|apply ext_refl]. }
      destruct (open_table_le _ _ _ Hop root) as [->|(e & ->)].
      - destruct (open_table _ op root) as [p|e]; [|left; reflexivity].
        apply (titer_le cell_payload op' op Hop S ext ext_refl ext_trans); [|exact Hg2].
        intros k pl s0. destruct (load_le pg' pg npages Hpg pl) as [->|(e & ->)].
        + destruct (load pg npages pl); [apply Hle|left; reflexivity].
        + right. exists e. split; [reflexivity|]. cbn [snd]. apply (Hg2 k pl s0).
      - right. exists e. split; [reflexivity|]. cbn [snd].
        destruct (open_table _ op root) as [p|e0]; cbn [snd]; [|apply ext_refl].
        apply (titer_grows cell_payload S ext ext_refl ext_trans _ Hg2).
    Qed.

    Lemma table_scan_grows root (cb : Z -> record -> S -> flow * S) : (forall k r, grw (cb k r)) ->
      grw (table_scan pg op npages S root cb).
    Proof.
      intros Hg s. unfold table_scan. destruct (open_table _ op root) as [p|e0]; cbn [snd]; [|apply ext_refl].
      apply (titer_grows cell_payload S ext ext_refl ext_trans).
      intros k pl s0. destruct (load pg npages pl); cbn [snd]; [apply Hg|apply ext_refl].
    Qed.

    Lemma index_scan_le root (cb' cb : record -> S -> flow * S) :
      (forall r s, ole (cb' r s) (cb r s)) -> (forall r, grw (cb r)) ->
      forall s, ole (index_scan pg' op' npages S root cb' s) (index_scan pg op npages S root cb s).
    Proof.
      intros Hle Hg s. unfold index_scan.
      destruct (open_index_le _ _ _ Hop root) as [->|(e & ->)].
      - destruct (open_index _ op root) as [p|e]; [|left; reflexivity].
        apply (iiter_le cell_payload record op' op (load pg' npages) (load pg npages) Hop (load_le pg' pg npages Hpg)
                 S ext ext_refl ext_trans cb' cb Hle Hg).
      - right. exists e. split; [reflexivity|]. cbn [snd].
        destruct (open_index _ op root) as [p|e0]; cbn [snd]; [|apply ext_refl].
        apply (iiter_grows cell_payload record S ext ext_refl ext_trans cb Hg).
    Qed.

    Lemma index_scan_grows root (cb : record -> S -> flow * S) : (forall r, grw (cb r)) ->
      grw (index_scan pg op npages S root cb).
    Proof.
      intros Hg s. unfold index_scan. destruct (open_index _ op root) as [p|e0]; cbn [snd]; [|apply ext_refl].
      apply (iiter_grows cell_payload record S ext ext_refl ext_trans cb Hg).
    Qed.

    Lemma index_scan_min_le root from (cb' cb : record -> S -> flow * S) :
      (forall r s, ole (cb' r s) (cb r s)) -> (forall r, grw (cb r)) ->
      forall s, ole (index_scan_min pg' op' npages S root from cb' s) (index_scan_min pg op npages S root from cb s).
    Proof.
      intros Hle Hg s. unfold index_scan_min.
      destruct (open_index_le _ _ _ Hop root) as [->|(e & ->)].
      - destruct (open_index _ op root) as [p|e]; [|left; reflexivity].
        apply (iiter_min_le cell_payload record op' op (load pg' npages) (load pg npages) Hop (load_le pg' pg npages Hpg)
                 S ext ext_refl ext_trans cb' cb Hle Hg).
      - right. exists e. split; [reflexivity|]. cbn [snd].
        destruct (open_index _ op root) as [p|e0]; cbn [snd]; [|apply ext_refl].
        apply (iiter_min_grows cell_payload record S ext ext_refl ext_trans cb Hg).
    Qed.

    Lemma index_scan_min_grows root from (cb : record -> S -> flow * S) : (forall r, grw (cb r)) ->
      grw (index_scan_min pg op npages S root from cb).
    Proof.
      intros Hg s. unfold index_scan_min. destruct (open_index _ op root) as [p|e0]; cbn [snd]; [|apply ext_refl].
      apply (iiter_min_grows cell_payload record S ext ext_refl ext_trans cb Hg).
    Qed.

    Lemma index_scan_eq_le root k (cb' cb : record -> S -> flow * S) :
      (forall r s, ole (cb' r s) (cb r s)) -> (forall r, grw (cb r)) ->
      forall s, ole (index_scan_eq pg' op' npages S root k cb' s) (index_scan_eq pg op npages S root k cb s).
    Proof.
      intros Hle Hg s. unfold index_scan_eq. apply index_scan_min_le.
      - intros r s0. destruct (equals k r); [apply Hle|left; reflexivity].
      - intros r s0. destruct (equals k r); cbn [snd]; [apply Hg|apply ext_refl].
    Qed.

    Lemma index_scan_eq_grows root k (cb : record -> S -> flow * S) : (forall r, grw (cb r)) ->
      grw (index_scan_eq pg op npages S root k cb).
    Proof.
      intros Hg. unfold index_scan_eq. apply index_scan_min_grows.
      intros r s0. destruct (equals k r); cbn [snd]; [apply Hg|apply ext_refl].
    Qed.
  End Scans.

  (* sqlite_master under faults: the same list of objects, or a failure *)
  Lemma master_le : master pg' op' npages = master pg op npages \/ exists e x, master pg' op' npages = (Fail e, x).
  Proof.
    unfold master.
    pose proof (table_scan_le (list master_row) (fun _ _ => True) (fun _ => I) (fun _ _ _ _ _ => I) 1
                  (fun _ rec acc => match master_of_record rec with Ok m => (Continue, m :: acc) | Err e => (Fail e, acc) end)
                  (fun _ rec acc => match master_of_record rec with Ok m => (Continue, m :: acc) | Err e => (Fail e, acc) end)
                  (fun _ _ _ => out_le_refl _ _ _) (fun _ _ _ => I) []) as [->|(e & He & _)].
    - left. reflexivity.
    - right. destruct (table_scan pg' op' npages _ 1 _ []) as [f acc]. cbn [fst] in He. subst f. exists e, (rev acc). reflexivity.
  Qed.

  Section HighOps.
    Variable S : Type.
    Variable ext : S -> S -> Prop.
    Hypothesis ext_refl : forall s, ext s s.
    Hypothesis ext_trans : forall a b c, ext a b -> ext b c -> ext a c.
    Variable cb : row -> S -> flow * S.
    Hypothesis cb_grows : forall r, grows S ext (cb r).
    Notation ole := (out_le S ext).

    Lemma with_master_le s (k' k : list master_row -> flow * S) :
      (forall ms, ole (k' ms) (k ms)) -> (forall ms, ext s (snd (k ms))) ->
      ole (with_master pg' op' npages S s k') (with_master pg op npages S s k).
    Proof.
      intros Hk Hg. unfold with_master. destruct master_le as [->|(e & x & ->)].
      - destruct (master pg op npages) as [[| |e] ms]; [apply Hk|apply Hk|left; reflexivity].
      - right. exists e. split; [reflexivity|]. cbn [snd].
        destruct (master pg op npages) as [[| |e0] ms]; cbn [snd]; [apply Hg|apply Hg|apply ext_refl].
    Qed.

    Lemma with_master_grows s (k : list master_row -> flow * S) :
      (forall ms, ext s (snd (k ms))) -> ext s (snd (with_master pg op npages S s k)).
    Proof.
      intros Hg. unfold with_master. destruct (master pg op npages) as [[| |e0] ms]; cbn [snd]; [apply Hg|apply Hg|apply ext_refl].
    Qed.

    Lemma failing_le {A} (x : res A) s (k' k : A -> flow * S) : (forall a, ole (k' a) (k a)) ->
      ole (failing S x s k') (failing S x s k).
    Proof. intros Hk. destruct x as [a|e]; cbn [failing]; [apply Hk|left; reflexivity]. Qed.

    Lemma failing_grows {A} (x : res A) s (k : A -> flow * S) : (forall a, ext s (snd (k a))) ->
      ext s (snd (failing S x s k)).
    Proof. intros Hk. destruct x as [a|e]; cbn [failing snd]; [apply Hk|apply ext_refl]. Qed.

    (* the nested lookups *)
    Lemma via_rowid_grows ci troot r : grows S ext (via_rowid pg op npages S cb ci troot r).
    Proof.
      intros s. unfold via_rowid. destruct (chomp_rowid r) as [[rowid rest]|e]; cbn [snd]; [|apply ext_refl].
      destruct (table_rowid pg op npages troot rowid) as [[rec|]|e]; cbn [snd]; [apply cb_grows|apply ext_refl|apply ext_refl].
    Qed.

    Lemma via_rowid_le ci troot r s :
      ole (via_rowid pg' op' npages S cb ci troot r s) (via_rowid pg op npages S cb ci troot r s).
    Proof.
      pose proof (via_rowid_grows ci troot r s) as Hg. unfold via_rowid in *.
      destruct (chomp_rowid r) as [[rowid rest]|e]; [|left; reflexivity].
      destruct (table_rowid_fault pg' pg op' op npages Hpg Hop troot rowid) as [->|(e & ->)]; [left; reflexivity|].
      right. exists e. split; [reflexivity|exact Hg].
    Qed.

    Lemma via_pk_grows ci troot cols pk r : grows S ext (via_pk pg op npages S cb ci troot cols pk r).
    Proof.
      intros s. unfold via_pk. destruct (set_key r cols pk) as [pk2|e]; cbn [snd]; [|apply ext_refl].
      destruct (index_scan_eq pg op npages (option record) troot pk2 _ None) as [[| |e] [found|]]; cbn [snd];
        try apply cb_grows; apply ext_refl.
    Qed.

    Lemma via_pk_le ci troot cols pk r s :
      ole (via_pk pg' op' npages S cb ci troot cols pk r s) (via_pk pg op npages S cb ci troot cols pk r s).
    Proof.
      pose proof (via_pk_grows ci troot cols pk r s) as Hg. unfold via_pk in *.
      destruct (set_key r cols pk) as [pk2|e]; [|left; reflexivity].
      destruct (index_scan_eq_le (option record) (fun _ _ => True) (fun _ => I) (fun _ _ _ _ _ => I) troot pk2
                  (fun row _ => (Stop, nonempty row)) (fun row _ => (Stop, nonempty row))
                  (fun _ _ => out_le_refl _ _ _) (fun _ _ => I) None) as [->|(e & He & _)]; [left; reflexivity|].
      destruct (index_scan_eq pg' op' npages (option record) troot pk2 _ None) as [f' x]. cbn [fst] in He. subst f'.
      right. exists e. split; [reflexivity|exact Hg].
    Qed.

    (* ---- the operations ---- *)
    Theorem h_select_fault sc table columns s :
      ole (h_select pg' op' npages S cb sc table columns s) (h_select pg op npages S cb sc table columns s).
    Proof.
      unfold h_select. apply with_master_le; intros ms; destruct (s_worowid sc).
      - apply failing_le; intros ci. apply failing_le; intros root.
        apply index_scan_le; try assumption; [intros r s0; left; reflexivity|intros r; apply cb_grows].
      - apply failing_le; intros ci. apply failing_le; intros root.
        apply table_scan_le; try assumption; [intros k r s0; left; reflexivity|intros k r; apply cb_grows].
      - apply failing_grows; intros ci. apply failing_grows; intros root.
        apply index_scan_grows; try assumption. intros r; apply cb_grows.
      - apply failing_grows; intros ci. apply failing_grows; intros root.
        apply table_scan_grows; try assumption. intros k r; apply cb_grows.
    Qed.

    Lemma select_rowid_le sc ms table rowid columns :
      le_res (select_rowid_ pg' op' npages sc ms table rowid columns) (select_rowid_ pg op npages sc ms table rowid columns).
    Proof.
      unfold select_rowid_. destruct (to_ci_rowid sc columns) as [ci|e]; cbn [bind]; [|left; reflexivity].
      destruct (find_root ms name_table table) as [root|e]; cbn [bind]; [|left; reflexivity].
      destruct (table_rowid_fault pg' pg op' op npages Hpg Hop root rowid) as [->|(e & ->)]; [left; reflexivity|].
      right. exists e. reflexivity.
    Qed.

    Lemma rowid_tail_le sc ms table rowid columns s :
      ole (failing S (select_rowid_ pg' op' npages sc ms table rowid columns) s
                   (fun r => match r with None => (Continue, s) | Some rw => cb rw s end))
          (failing S (select_rowid_ pg op npages sc ms table rowid columns) s
                   (fun r => match r with None => (Continue, s) | Some rw => cb rw s end)).
    Proof.
      destruct (select_rowid_le sc ms table rowid columns) as [->|(e & ->)]; [left; reflexivity|].
      right. exists e. split; [reflexivity|]. cbn [failing snd].
      apply failing_grows. intros [rw|]; cbn [snd]; [apply cb_grows|apply ext_refl].
    Qed.

    Theorem h_select_rowid_fault sc table rowid columns s :
      ole (h_select_rowid pg' op' npages S cb sc table rowid columns s) (h_select_rowid pg op npages S cb sc table rowid columns s).
    Proof.
      unfold h_select_rowid. apply with_master_le; intros ms; destruct (s_worowid sc); cbn [snd];
        try (left; reflexivity); try apply ext_refl.
      - apply rowid_tail_le.
      - apply failing_grows. intros [rw|]; cbn [snd]; [apply cb_grows|apply ext_refl].
    Qed.

    Theorem h_indexed_select_fault sc table iname columns s :
      ole (h_indexed_select pg' op' npages S cb sc table iname columns s) (h_indexed_select pg op npages S cb sc table iname columns s).
    Proof.
      unfold h_indexed_select. apply with_master_le; intros ms; destruct (find_index sc iname) as [ind|]; cbn [snd];
        try (left; reflexivity); try apply ext_refl; destruct (s_worowid sc).
      - apply failing_le; intros ci. apply failing_le; intros troot. apply failing_le; intros iroot. apply failing_le; intros pk.
        apply index_scan_le; try assumption; [intros r s0; apply via_pk_le|intros r; apply via_pk_grows].
      - apply failing_le; intros ci. apply failing_le; intros troot. apply failing_le; intros iroot.
        apply index_scan_le; try assumption; [intros r s0; apply via_rowid_le|intros r; apply via_rowid_grows].
      - apply failing_grows; intros ci. apply failing_grows; intros troot. apply failing_grows; intros iroot. apply failing_grows; intros pk.
        apply index_scan_grows; try assumption. intros r; apply via_pk_grows.
      - apply failing_grows; intros ci. apply failing_grows; intros troot. apply failing_grows; intros iroot.
        apply index_scan_grows; try assumption. intros r; apply via_rowid_grows.
    Qed.

    Lemma indexed_select_eq_le sc ms table ind dbkey columns s :
      ole (indexed_select_eq_ pg' op' npages S cb sc ms table ind dbkey columns s)
          (indexed_select_eq_ pg op npages S cb sc ms table ind dbkey columns s).
    Proof.
      unfold indexed_select_eq_. apply failing_le; intros ci. apply failing_le; intros troot. apply failing_le; intros iroot.
      apply index_scan_eq_le; try assumption; [intros r s0; apply via_rowid_le|intros r; apply via_rowid_grows].
    Qed.

    Lemma indexed_select_eq_grows sc ms table ind dbkey columns s :
      ext s (snd (indexed_select_eq_ pg op npages S cb sc ms table ind dbkey columns s)).
    Proof.
      unfold indexed_select_eq_. apply failing_grows; intros ci. apply failing_grows; intros troot. apply failing_grows; intros iroot.
      apply index_scan_eq_grows; try assumption. intros r; apply via_rowid_grows.
    Qed.

    Theorem h_indexed_select_eq_fault sc table iname k columns s :
      ole (h_indexed_select_eq pg' op' npages S cb sc table iname k columns s)
          (h_indexed_select_eq pg op npages S cb sc table iname k columns s).
    Proof.
      unfold h_indexed_select_eq. apply with_master_le; intros ms; destruct (find_index sc iname) as [ind|]; cbn [snd];
        try (left; reflexivity); try apply ext_refl.
      - apply failing_le; intros dbkey. destruct (s_worowid sc); [|apply indexed_select_eq_le].
        apply failing_le; intros ci. apply failing_le; intros troot. apply failing_le; intros iroot. apply failing_le; intros pk.
        apply index_scan_eq_le; try assumption; [intros r s0; apply via_pk_le|intros r; apply via_pk_grows].
      - apply failing_grows; intros dbkey. destruct (s_worowid sc); [|apply indexed_select_eq_grows].
        apply failing_grows; intros ci. apply failing_grows; intros troot. apply failing_grows; intros iroot. apply failing_grows; intros pk.
        apply index_scan_eq_grows; try assumption. intros r; apply via_pk_grows.
    Qed.

    Theorem h_pk_select_fault sc table k columns s :
      ole (h_pk_select pg' op' npages S cb sc table k columns s) (h_pk_select pg op npages S cb sc table k columns s).
    Proof.
      unfold h_pk_select. apply with_master_le; intros ms; destruct (s_worowid sc).
      - apply failing_le; intros ci. apply failing_le; intros troot. apply failing_le; intros dbkey.
        apply index_scan_eq_le; try assumption; [intros r s0; left; reflexivity|intros r; apply cb_grows].
      - destruct (s_rowidpk sc).
        + destruct k as [|[| rowid | | |] k']; try (left; reflexivity). apply rowid_tail_le.
        + destruct (match s_pkname sc with [] => None | _ :: _ => _ end) as [ind|]; [|left; reflexivity].
          apply failing_le; intros dbkey. apply indexed_select_eq_le.
      - apply failing_grows; intros ci. apply failing_grows; intros troot. apply failing_grows; intros dbkey.
        apply index_scan_eq_grows; try assumption. intros r; apply cb_grows.
      - destruct (s_rowidpk sc).
        + destruct k as [|[| rowid | | |] k']; cbn [snd]; try apply ext_refl.
          apply failing_grows. intros [rw|]; cbn [snd]; [apply cb_grows|apply ext_refl].
        + destruct (match s_pkname sc with [] => None | _ :: _ => _ end) as [ind|]; cbn [snd]; [|apply ext_refl].
          apply failing_grows; intros dbkey. apply indexed_select_eq_grows.
    Qed.
    (* the fault-free operations only add to the caller's state *)
    Lemma h_select_grows sc table columns s : ext s (snd (h_select pg op npages S cb sc table columns s)).
    Proof.
      unfold h_select. apply with_master_grows; intros ms; destruct (s_worowid sc).
      - apply failing_grows; intros ci. apply failing_grows; intros root. apply index_scan_grows; try assumption. intros r; apply cb_grows.
      - apply failing_grows; intros ci. apply failing_grows; intros root. apply table_scan_grows; try assumption. intros k r; apply cb_grows.
    Qed.
    Lemma h_select_rowid_grows sc table rowid columns s : ext s (snd (h_select_rowid pg op npages S cb sc table rowid columns s)).
    Proof.
      unfold h_select_rowid. apply with_master_grows; intros ms; destruct (s_worowid sc); cbn [snd]; [apply ext_refl|].
      apply failing_grows. intros [rw|]; cbn [snd]; [apply cb_grows|apply ext_refl].
    Qed.
    Lemma h_indexed_select_grows sc table iname columns s : ext s (snd (h_indexed_select pg op npages S cb sc table iname columns s)).
    Proof.
      unfold h_indexed_select. apply with_master_grows; intros ms; destruct (find_index sc iname) as [ind|]; cbn [snd]; [|apply ext_refl].
      destruct (s_worowid sc).
      - apply failing_grows; intros ci. apply failing_grows; intros troot. apply failing_grows; intros iroot. apply failing_grows; intros pk.
        apply index_scan_grows; try assumption. intros r; apply via_pk_grows.
      - apply failing_grows; intros ci. apply failing_grows; intros troot. apply failing_grows; intros iroot.
        apply index_scan_grows; try assumption. intros r; apply via_rowid_grows.
    Qed.
    Lemma h_indexed_select_eq_grows sc table iname k columns s : ext s (snd (h_indexed_select_eq pg op npages S cb sc table iname k columns s)).
    Proof.
      unfold h_indexed_select_eq. apply with_master_grows; intros ms; destruct (find_index sc iname) as [ind|]; cbn [snd]; [|apply ext_refl].
      apply failing_grows; intros dbkey. destruct (s_worowid sc); [|apply indexed_select_eq_grows].
      apply failing_grows; intros ci. apply failing_grows; intros troot. apply failing_grows; intros iroot. apply failing_grows; intros pk.
      apply index_scan_eq_grows; try assumption. intros r; apply via_pk_grows.
    Qed.
    Lemma h_pk_select_grows sc table k columns s : ext s (snd (h_pk_select pg op npages S cb sc table k columns s)).
    Proof.
      unfold h_pk_select. apply with_master_grows; intros ms; destruct (s_worowid sc).
      - apply failing_grows; intros ci. apply failing_grows; intros troot. apply failing_grows; intros dbkey.
        apply index_scan_eq_grows; try assumption. intros r; apply cb_grows.
      - destruct (s_rowidpk sc).
        + destruct k as [|[| rowid | | |] k']; cbn [snd]; try apply ext_refl.
          apply failing_grows. intros [rw|]; cbn [snd]; [apply cb_grows|apply ext_refl].
        + destruct (match s_pkname sc with [] => None | _ :: _ => _ end) as [ind|]; cbn [snd]; [|apply ext_refl].
          apply failing_grows; intros dbkey. apply indexed_select_eq_grows.
    Qed.
  End HighOps.
End FaultHigh.

Lemma collect_hrow_grows limit (r : row) : grows (list row) lext (collect_hrow limit r).
Proof. intros s. unfold collect_hrow. exists [r]. destruct limit as [k|]; [destruct (k <=? _)|]; reflexivity. Qed.

(* ---- end to end: the schema record itself is read through the faulty pager (sqlite_master -> SQL texts -> tokenizer ->
   translated parser -> newSchema), then the operation runs ---- *)
From SQ Require Import Model.E2E.
Section FaultE2E.
  Variables pg' pg : Z -> res (list byte).
  Variables op' op : Z -> res page.
  Variable npages : nat.
  Hypothesis Hpg : forall n, le_res (pg' n) (pg n).
  Hypothesis Hop : forall n, le_res (op' n) (op n).
  Variable S : Type.
  Variable ext : S -> S -> Prop.
  Hypothesis ext_refl : forall s, ext s s.
  Notation ole := (out_le S ext).

  Lemma with_schema_le s table (k' k : schema -> flow * S) :
    (forall sc, ole (k' sc) (k sc)) -> (forall sc, ext s (snd (k sc))) ->
    ole (with_schema pg' op' npages s table k') (with_schema pg op npages s table k).
  Proof.
    intros Hk Hg. unfold with_schema. destruct (master_le pg' pg op' op npages Hpg Hop) as [->|(e & x & ->)].
    - destruct (master pg op npages) as [[| |e] ms]; [| |left; reflexivity]; (destruct (db_schema ms table) as [st|e1]; [apply Hk|left; reflexivity]).
    - right. exists e. split; [reflexivity|]. cbn [snd].
      destruct (master pg op npages) as [[| |e0] ms]; cbn [snd]; try apply ext_refl;
        (destruct (db_schema ms table) as [st|e1]; cbn [snd]; [apply Hg|apply ext_refl]).
  Qed.

  Hypothesis ext_trans : forall a b c, ext a b -> ext b c -> ext a c.
  Variable cb : row -> S -> flow * S.
  Hypothesis cb_grows : forall r, grows S ext (cb r).

  Theorem e_select_fault table columns s :
    ole (e_select pg' op' npages S cb table columns s) (e_select pg op npages S cb table columns s).
  Proof.
    unfold e_select. apply with_schema_le; intros sc.
    - apply (h_select_fault pg' pg op' op npages Hpg Hop S ext ext_refl ext_trans cb cb_grows).
    - apply (h_select_grows pg op npages S ext ext_refl ext_trans cb cb_grows).
  Qed.
  Theorem e_select_rowid_fault table rowid columns s :
    ole (e_select_rowid pg' op' npages S cb table rowid columns s) (e_select_rowid pg op npages S cb table rowid columns s).
  Proof.
    unfold e_select_rowid. apply with_schema_le; intros sc.
    - apply (h_select_rowid_fault pg' pg op' op npages Hpg Hop S ext ext_refl cb cb_grows).
    - apply (h_select_rowid_grows pg op npages S ext ext_refl cb cb_grows).
  Qed.
  Theorem e_indexed_select_fault table iname columns s :
    ole (e_indexed_select pg' op' npages S cb table iname columns s) (e_indexed_select pg op npages S cb table iname columns s).
  Proof.
    unfold e_indexed_select. apply with_schema_le; intros sc.
    - apply (h_indexed_select_fault pg' pg op' op npages Hpg Hop S ext ext_refl ext_trans cb cb_grows).
    - apply (h_indexed_select_grows pg op npages S ext ext_refl ext_trans cb cb_grows).
  Qed.
  Theorem e_indexed_select_eq_fault table iname k columns s :
    ole (e_indexed_select_eq pg' op' npages S cb table iname k columns s) (e_indexed_select_eq pg op npages S cb table iname k columns s).
  Proof.
    unfold e_indexed_select_eq. apply with_schema_le; intros sc.
    - apply (h_indexed_select_eq_fault pg' pg op' op npages Hpg Hop S ext ext_refl ext_trans cb cb_grows).
    - apply (h_indexed_select_eq_grows pg op npages S ext ext_refl ext_trans cb cb_grows).
  Qed.
  Theorem e_pk_select_fault table k columns s :
    ole (e_pk_select pg' op' npages S cb table k columns s) (e_pk_select pg op npages S cb table k columns s).
  Proof.
    unfold e_pk_select. apply with_schema_le; intros sc.
    - apply (h_pk_select_fault pg' pg op' op npages Hpg Hop S ext ext_refl ext_trans cb cb_grows).
    - apply (h_pk_select_grows pg op npages S ext ext_refl ext_trans cb cb_grows).
  Qed.
End FaultE2E.
