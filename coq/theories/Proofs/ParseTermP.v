(* C16: termination of the generated parser's driver loop and absence of stack underflow, from the
   finite fact Proofs/ParseCertP.v establishes about this run's tables and certificate. *)
From Coq Require Import ZArith List String Bool Lia.
From SQ Require Import Gen.ParserTables Gen.ParserCert Model.SqlParse Model.ParseBudget Proofs.ParseP Proofs.ParseCertP.
Import ListNotations.
Open Scope Z_scope.

(* ---------- reading the finite fact ---------- *)
Lemma leb_imp n m : (n <=? m) = true -> n <= m.
Proof. apply Z.leb_le. Qed.
Lemma cert_parts :
  (forall s t, In s reachl -> In t toks_opt -> closed_cell s t = true) /\
  (forall b s, inP b s = true -> depth s <= depth b + 1) /\
  depth 0 <= 0 /\
  (forall r, In r (List.concat cert_rank) -> 0 <= r <= rmax) /\
  (forall s, st_ok s -> forall a, decide s (Some eofc) <> DShift a).
Proof.
  pose proof cert_closed_fact as H1. pose proof cert_depths_fact as H2. pose proof cert_depth0_fact as H3.
  pose proof cert_ranks_fact as H4. pose proof cert_noeofshift_fact as H5.
  split; [|split; [|split; [|split]]].
  - intros s t Hs Ht. pose proof (proj1 (forallb_forall _ _) H1 s Hs) as X. exact (proj1 (forallb_forall _ _) X t Ht).
  - intros b s Hbs. unfold inP in Hbs. apply existsb_exists in Hbs. destruct Hbs as ([b' s'] & Hin & E).
    cbn [fst snd] in E. apply andb_true_iff in E. destruct E as [E1 E2]. apply Z.eqb_eq in E1. apply Z.eqb_eq in E2. subst.
    pose proof (proj1 (forallb_forall _ _) H2 (b, s) Hin) as X. cbn [fst snd] in X. apply leb_imp in X. exact X.
  - apply leb_imp in H3. exact H3.
  - intros r Hr. pose proof (proj1 (forallb_forall _ _) H4 r Hr) as X. apply andb_true_iff in X. destruct X as [X1 X2].
    apply leb_imp in X1. apply leb_imp in X2. split; assumption.
  - intros s Hs a Hd. pose proof (proj1 (forallb_forall _ _) H5 s (in_zrange _ _ Hs)) as X. cbn beta in X. rewrite Hd in X. discriminate X.
Qed.

Lemma rmax_nonneg : 0 <= rmax.
Proof.
  unfold rmax. assert (G : forall l a, 0 <= a -> 0 <= fold_left Z.max l a).
  { induction l as [|x l IH]; intros a Ha; cbn [fold_left]; [exact Ha|apply IH; lia]. }
  apply G. lia.
Qed.

Lemma rank_range s t : 0 <= rank s t <= rmax.
Proof.
  pose proof rmax_nonneg as Hm. destruct cert_parts as (_ & _ & _ & Hr & _). unfold rank.
  destruct (nthL cert_rank s) as [row|] eqn:E1; [|lia].
  destruct (nthZ row (tokidx t)) as [r|] eqn:E2; [|lia].
  apply Hr. apply List.in_concat. exists row. split; [apply (nthL_in _ _ _ E1)|apply (nthZ_in _ _ _ E2)].
Qed.

(* ---------- the stack is a path of certificate edges from state 0 ---------- *)
Fixpoint path_ok (l : list Z) : Prop :=
  match l with
  | [] => False
  | s :: r => match r with [] => s = 0 | b :: _ => inP b s = true /\ path_ok r end
  end.

Lemma path_head_reach s l : path_ok (s :: l) -> In s reachl.
Proof.
  cbn [path_ok]. destruct l as [|b r]; [intros ->; left; reflexivity|].
  intros [H _]. right. unfold inP in H. apply existsb_exists in H. destruct H as ([b' s'] & Hin & E).
  cbn [fst snd] in E. apply andb_true_iff in E. destruct E as [_ E2]. apply Z.eqb_eq in E2. subst.
  apply in_map_iff. exists (b', s). split; [reflexivity|exact Hin].
Qed.

Lemma path_depth l : path_ok l -> depth (hd 0 l) + 1 <= Z.of_nat (List.length l).
Proof.
  destruct cert_parts as (_ & Hd & Hd0 & _).
  induction l as [|s r IH]; [intros []|]. cbn [path_ok hd]. destruct r as [|b r'].
  - intros ->. cbn [List.length]. lia.
  - intros [Hbs Hp]. specialize (IH Hp). cbn [hd] in IH. specialize (Hd b s Hbs). cbn [List.length] in *. lia.
Qed.

Lemma in_preds b s : inP b s = true -> In b (preds s).
Proof.
  unfold inP, preds. intros H. apply existsb_exists in H. destruct H as ([b' s'] & Hin & E). cbn [fst snd] in E.
  apply andb_true_iff in E. destruct E as [E1 E2]. apply Z.eqb_eq in E1. subst b'.
  apply in_map_iff. exists (b, s'). split; [reflexivity|]. apply filter_In. split; [exact Hin|exact E2].
Qed.

Lemma path_pred k : forall (x : Z) (l : list Z) (S : list Z), In x S -> path_ok (x :: l) -> (k < List.length (x :: l))%nat ->
  In (nth k (x :: l) 0) (predL k S) /\ path_ok (skipn k (x :: l)).
Proof.
  induction k as [|k IH]; intros x l S Hx Hp Hk; [split; [exact Hx|exact Hp]|].
  destruct l as [|b l']; [cbn [List.length] in Hk; lia|].
  cbn [path_ok] in Hp. destruct Hp as [Hbx Hp].
  cbn [nth skipn predL]. apply IH; [|exact Hp|cbn [List.length] in *; lia].
  apply in_flat_map. exists x. split; [exact Hx|apply in_preds; exact Hbx].
Qed.

(* ---------- the measure ---------- *)
Definition n1 (c : cfg) : Z :=
  Z.of_nat (List.length (input c)) + match look c with Some (t, _) => if t =? eofc then 0 else 1 | None => 0 end.
Definition psi (c : cfg) : Z :=
  Z.of_nat (List.length (live c)) + rank (top_state c) (option_map fst (look c)) + kk * n1 c
  + kk' * (match look c with None => 1 | Some _ => 0 end).

Lemma psi_nonneg c : 0 <= psi c.
Proof.
  unfold psi, n1, kk, kk'. pose proof (rank_range (top_state c) (option_map fst (look c))). pose proof rmax_nonneg.
  destruct (look c) as [[t tk]|]; [destruct (t =? eofc)|]; nia.
Qed.

Definition TInv (c : cfg) : Prop := Inv c /\ path_ok (map st (live c)).

Lemma decide_some_no_need s t : decide s (Some t) <> DNeedTok.
Proof.
  assert (D : default_decision s (Some t) <> DNeedTok).
  { unfold default_decision. destruct (nthZ yyDef s) as [d|]; [|discriminate].
    destruct (d =? -2); [destruct (exca_lookup s t) as [n|]; [destruct (n <? 0); [discriminate|destruct (n =? 0); discriminate]|discriminate]|].
    destruct (d =? 0); discriminate. }
  unfold decide. destruct (nthZ yyPact s) as [y|]; [|discriminate].
  destruct (y <=? yyFlag); [exact D|].
  destruct ((y + t <? 0) || (yyLast <=? y + t)); [exact D|].
  destruct (nthZ yyAct (y + t)) as [a|]; [|discriminate].
  destruct (nthZ yyChk a) as [ch|]; [|discriminate]. destruct (ch =? t); [discriminate|exact D].
Qed.

Lemma top_state_hd c : top_state c = hd 0 (map st (live c)).
Proof. unfold top_state. destruct (live c); reflexivity. Qed.

Lemma look_in_toks c : Inv c -> In (option_map fst (look c)) toks_opt.
Proof.
  intros [_ Hl]. unfold toks_opt. destruct (look c) as [[t tk]|] eqn:E; cbn [option_map fst]; [|left; reflexivity].
  right. apply in_map. exact (Hl t tk eq_refl).
Qed.

Lemma eof_class : lex1 (ttyp eof_token) = Some eofc.
Proof. unfold eofc. cbn [ttyp eof_token]. destruct (lex1_ok 0) as (t & -> & _). reflexivity. Qed.

Lemma skipn_below (l : list slot) : forall n, match skipn n l with s :: _ => st s | [] => 0 end = nth n (map st l) 0.
Proof. induction l as [|s r IH]; intros [|n]; try reflexivity. cbn [skipn map nth]. apply IH. Qed.
Lemma map_skipn_st (l : list slot) : forall n, map st (skipn n l) = skipn n (map st l).
Proof. induction l as [|s r IH]; intros [|n]; try reflexivity. cbn [skipn map]. apply IH. Qed.
Lemma skipn_hd_nth (l : list Z) : forall n b r, skipn n l = b :: r -> nth n l 0 = b.
Proof. induction l as [|y ys IH]; intros [|n] b r E; cbn [skipn nth] in *; try discriminate; [inversion E; reflexivity|eapply IH; exact E]. Qed.

Ltac norm_top c := repeat match goal with |- context [top_state ?x] => lazymatch x with c => fail | _ => change (top_state x) with (top_state c) end end.

(* one iteration of the loop keeps the invariant and lowers the measure *)
Lemma step_measure c : TInv c -> match step c with Next c' => TInv c' /\ psi c' < psi c | Done o => o <> OutOfFuel end.
Proof.
  intros [HI Hp]. pose proof (step_inv c HI) as Hstep. pose proof (top_ok c HI) as Hs.
  destruct cert_parts as (Hclosed & _ & _ & _ & Hnoeof).
  assert (Hpath : path_ok (top_state c :: tl (map st (live c)))).
  { rewrite top_state_hd. destruct (map st (live c)); [destruct Hp|exact Hp]. }
  pose proof (path_head_reach _ _ Hpath) as Hreach.
  pose proof (Hclosed _ _ Hreach (look_in_toks c HI)) as Hcell. unfold closed_cell in Hcell.
  pose proof rmax_nonneg as Hrm.
  unfold step in *.
  destruct (decide (top_state c) (option_map fst (look c))) as [a|p| | | |why] eqn:Ed.
  - (* shift *)
    destruct (look c) as [[t tk]|] eqn:El; [|discriminate].
    split; [split; [exact Hstep|]|].
    + cbn [live map lex_slot st]. destruct (live c) as [|s0 r0] eqn:Elive; [destruct Hp|].
      cbn [map path_ok]. unfold top_state in Hcell. rewrite Elive in Hcell. split; [exact Hcell|exact Hp].
    + cbn [option_map fst] in Ed.
      assert (Hne : t <> eofc) by (intros ->; exact (Hnoeof _ Hs a Ed)).
      unfold psi, n1. cbn [live look input List.length top_state lex_slot st option_map]. rewrite El.
      apply Z.eqb_neq in Hne. rewrite Hne.
      pose proof (rank_range a None). pose proof (rank_range (top_state c) (Some t)). cbn [option_map fst].
      unfold kk, kk'. rewrite Nat2Z.inj_succ. nia.
  - (* reduce *)
    destruct (nthZ yyR1 p) as [lhs|] eqn:E1; [|discriminate]. destruct (nthZ yyR2 p) as [L|] eqn:E2; [|discriminate].
    apply andb_true_iff in Hcell. destruct Hcell as [Hcell Hall]. apply andb_true_iff in Hcell. destruct Hcell as [HL0 HLd].
    apply leb_imp in HL0. apply leb_imp in HLd.
    pose proof (path_depth _ Hp) as Hdepth. rewrite <- top_state_hd in Hdepth. rewrite map_length in Hdepth.
    unfold reduce in *. rewrite E1, E2 in *.
    set (Ln := Z.to_nat L) in *.
    assert (HLn : (Ln < List.length (map st (live c)))%nat) by (rewrite map_length; lia).
    destruct (map st (live c)) as [|x l] eqn:Em; [destruct Hp|].
    assert (Hx : x = top_state c) by (rewrite top_state_hd, Em; reflexivity).
    destruct (path_pred Ln x l [x] ltac:(left; reflexivity) Hp HLn) as [Hin Hrest].
    rewrite forallb_forall in Hall. rewrite <- Hx in Hall. specialize (Hall _ Hin).
    (* the exposed state is the state of the first slot that stays *)
    assert (Hbelow : match skipn Ln (live c) with s :: _ => st s | [] => 0 end = nth Ln (x :: l) 0).
    { rewrite <- Em. apply skipn_below. }
    assert (Hmap : map st (skipn Ln (live c)) = skipn Ln (x :: l)).
    { rewrite <- Em. apply map_skipn_st. }
    rewrite Hbelow in *.
    destruct (goto_state lhs (nth Ln (x :: l) 0)) as [ns|] eqn:Eg; [|discriminate].
    apply andb_true_iff in Hall. destruct Hall as [Hedge Hrank]. apply leb_imp in Hrank.
    assert (Hnext : forall fs res,
               let c' := {| live := {| st := ns; fields := fs |} :: skipn Ln (live c); dead := tl (rev (firstn Ln (live c)) ++ dead c)%list;
                            look := look c; input := input c; result := res |} in
               Inv c' -> TInv c' /\ psi c' < psi c).
    { intros fs res c' HI'. subst c'. split; [split; [exact HI'|]|].
      - cbn [live map st]. rewrite Hmap. destruct (skipn Ln (x :: l)) as [|b0 r0] eqn:Es; [destruct Hrest|].
        cbn [path_ok]. split; [|exact Hrest].
        assert (nth Ln (x :: l) 0 = b0) as <-; [eapply skipn_hd_nth; exact Es|exact Hedge].
      - unfold psi, n1. cbn [live look input top_state st List.length]. rewrite skipn_length.
        assert (List.length (live c) = List.length (x :: l)) as -> by (rewrite <- Em, map_length; reflexivity).
        rewrite Hx in Hrank. rewrite Nat2Z.inj_succ, Nat2Z.inj_sub by lia. unfold Ln in *. lia. }
    destruct (find_action (Z.to_nat p) actions) as [|f e|e].
    + apply Hnext. exact Hstep.
    + destruct (eval _ e); [apply Hnext; exact Hstep|discriminate|discriminate].
    + destruct (eval _ e); [apply Hnext; exact Hstep|discriminate|discriminate].
  - discriminate.
  - discriminate.
  - (* the next token is fetched *)
    destruct (look c) as [[t tk]|] eqn:El; [exfalso; exact (decide_some_no_need _ _ Ed)|].
    unfold next_tok in *. rewrite El in *.
    destruct (input c) as [|tk0 rest] eqn:Ei; cbn zeta in *.
    + rewrite eof_class in *. split; [split; [exact Hstep|exact Hp]|].
      unfold psi, n1. cbn [live look input List.length top_state option_map fst]. rewrite El, Ei. cbn [List.length].
      rewrite Z.eqb_refl. pose proof (rank_range (top_state c) (Some eofc)). pose proof (rank_range (top_state c) None).
      norm_top c. cbn [option_map]. unfold kk, kk'. nia.
    + destruct (lex1_ok (ttyp tk0)) as (t & Et & _). rewrite Et in *. split; [split; [exact Hstep|exact Hp]|].
      unfold psi, n1. cbn [live look input List.length top_state option_map fst]. rewrite El, Ei. cbn [List.length].
      pose proof (rank_range (top_state c) (Some t)). pose proof (rank_range (top_state c) None).
      norm_top c. cbn [option_map]. unfold kk, kk'. rewrite Nat2Z.inj_succ. destruct (t =? eofc); nia.
  - discriminate.
Qed.

Theorem run_terminates : forall fuel c, TInv c -> psi c < Z.of_nat fuel -> run fuel c <> OutOfFuel.
Proof.
  induction fuel as [|k IH]; intros c HT Hpsi; [pose proof (psi_nonneg c); lia|].
  cbn [run]. pose proof (step_measure c HT) as H. destruct (step c) as [c'|o]; [|exact H].
  destruct H as [HT' Hlt]. apply IH; [exact HT'|lia].
Qed.

(* for EVERY token list the driver loop ends - accept, syntax error, or a detected stale read -
   within parse_budget iterations *)
Theorem parse_terminates toks : parse_tokens (parse_budget toks) toks <> OutOfFuel.
Proof.
  unfold parse_tokens. apply run_terminates.
  - split; [split; cbn [live look]; [constructor; [apply st_ok_zero|constructor]|intros ? ? X; discriminate X]|].
    cbn [live map st zero_slot path_ok]. reflexivity.
  - unfold psi, n1, parse_budget. cbn [live look input List.length top_state st zero_slot option_map].
    pose proof (rank_range 0 None) as Hr0. pose proof rmax_nonneg as Hm.
    replace (Z.of_nat (List.length toks) + 0) with (Z.of_nat (List.length toks)) by lia.
    assert (HA : 0 <= kk * Z.of_nat (List.length toks)) by (unfold kk; nia).
    set (A := kk * Z.of_nat (List.length toks)) in *. clearbody A. unfold kk'. lia.
Qed.

(* more budget changes nothing once the loop has ended *)
Lemma run_more fuel : forall c extra, run fuel c <> OutOfFuel -> run (fuel + extra) c = run fuel c.
Proof.
  induction fuel as [|k IH]; intros c extra H; [cbn [run] in H; congruence|].
  cbn [run Nat.add] in *. destruct (step c) as [c'|o]; [apply IH; exact H|reflexivity].
Qed.

(* no reduction ever reaches below the bottom of the stack: with the path invariant the exposed
   state of every reduction is a real stack entry (the model's default for an empty rest is never used) *)
Theorem reduce_never_underflows c p : TInv c -> decide (top_state c) (option_map fst (look c)) = DReduce p ->
  exists L, nthZ yyR2 p = Some L /\ 0 <= L /\ (Z.to_nat L < List.length (live c))%nat.
Proof.
  intros [HI Hp] Ed. destruct cert_parts as (Hclosed & _).
  assert (Hpath : path_ok (top_state c :: tl (map st (live c)))).
  { rewrite top_state_hd. destruct (map st (live c)); [destruct Hp|exact Hp]. }
  pose proof (Hclosed _ _ (path_head_reach _ _ Hpath) (look_in_toks c HI)) as Hcell. unfold closed_cell in Hcell. rewrite Ed in Hcell.
  destruct (nthZ yyR1 p); [|discriminate]. destruct (nthZ yyR2 p) as [L|]; [|discriminate].
  apply andb_true_iff in Hcell. destruct Hcell as [Hcell _]. apply andb_true_iff in Hcell. destruct Hcell as [H0 Hd].
  apply leb_imp in H0. apply leb_imp in Hd.
  pose proof (path_depth _ Hp) as Hdepth. rewrite <- top_state_hd in Hdepth. rewrite map_length in Hdepth.
  exists L. split; [reflexivity|]. split; [exact H0|lia].
Qed.

(* sql.Parse = tokenize, then the generated parser *)
From SQ Require Import Model.Base Model.Tokenizer Proofs.TokenizerP.
Theorem parse_sql_total s : parse_sql s <> OutOfFuel /\ ~ table_panic (parse_sql s).
Proof.
  unfold parse_sql, parse_string. pose proof (tokenize_total s) as Ht.
  destruct (tokenize s) as [toks|l| | |]; cbn [tok_fine] in Ht; try contradiction.
  - split; [apply parse_terminates|apply parse_no_table_panic].
  - split; [discriminate|cbn [table_panic]; tauto].
  - split; [discriminate|cbn [table_panic]; tauto].
Qed.
