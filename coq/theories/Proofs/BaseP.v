(* lemmas about bytes, big-endian numbers and slicing *)
From SQ Require Import Model.Base.
From Coq Require Import ZifyBool ZifyNat.
Ltac Zify.zify_post_hook ::= Z.div_mod_to_equations.

Lemma b2z_range b : 0 <= b2z b < 256.
Proof.
  unfold b2z. pose proof (Byte.to_N_bounded b). lia.
Qed.

Lemma b2z_z2b z : 0 <= z < 256 -> b2z (z2b z) = z.
Proof.
  intros H. unfold z2b, b2z.
  rewrite Z.mod_small by lia.
  destruct (Byte.of_N (Z.to_N z)) eqn:E.
  - apply Byte.to_of_N in E. rewrite E. lia.
  - apply Byte.of_N_None_iff in E. lia.
Qed.

Lemma z2b_b2z b : z2b (b2z b) = b.
Proof.
  unfold z2b, b2z. pose proof (Byte.to_N_bounded b).
  rewrite Z.mod_small by lia. rewrite N2Z.id, Byte.of_to_N. reflexivity.
Qed.

Lemma len_nonneg b : 0 <= len b.
Proof. unfold len. lia. Qed.

Lemma len_app a b : len (a ++ b) = len a + len b.
Proof. unfold len. rewrite app_length. lia. Qed.

Lemma len_cons c b : len (c :: b) = 1 + len b.
Proof. unfold len. cbn [length]. lia. Qed.

Lemma len_nil : len [] = 0.
Proof. reflexivity. Qed.

Lemma be_acc_app acc a b : be_acc acc (a ++ b) = be_acc (be_acc acc a) b.
Proof. revert acc. induction a as [|c a IH]; intros acc; cbn [be_acc app]; auto. Qed.

Lemma be_acc_bound acc b : 0 <= acc -> acc * 256 ^ len b <= be_acc acc b < (acc + 1) * 256 ^ len b.
Proof.
  revert acc. induction b as [|c b IH]; intros acc Ha.
  - cbn [be_acc]. rewrite len_nil. lia.
  - cbn [be_acc]. rewrite len_cons. pose proof (b2z_range c). pose proof (len_nonneg b).
    specialize (IH (acc * 256 + b2z c) ltac:(lia)).
    rewrite Z.pow_add_r by lia. change (256 ^ 1) with 256.
    assert (0 < 256 ^ len b) by (apply Z.pow_pos_nonneg; lia). nia.
Qed.

Lemma be_bound b : 0 <= be b < 256 ^ len b.
Proof. unfold be. pose proof (be_acc_bound 0 b ltac:(lia)). lia. Qed.

Lemma be_acc_shift acc b : be_acc acc b = acc * 256 ^ len b + be b.
Proof.
  unfold be. revert acc. induction b as [|c b IH]; intros acc.
  - cbn [be_acc]. rewrite len_nil. lia.
  - cbn [be_acc]. rewrite len_cons. pose proof (len_nonneg b).
    rewrite IH. rewrite (IH (0 * 256 + b2z c)).
    rewrite Z.pow_add_r by lia. change (256 ^ 1) with 256. lia.
Qed.

Lemma be_app a b : be (a ++ b) = be a * 256 ^ len b + be b.
Proof. unfold be at 1. rewrite be_acc_app. rewrite be_acc_shift. reflexivity. Qed.

Lemma firstn_app_exact {A} (a b : list A) n : n = length a -> firstn n (a ++ b) = a.
Proof. intros ->. rewrite firstn_app, Nat.sub_diag, firstn_all. cbn. apply app_nil_r. Qed.

Lemma skipn_app_exact {A} (a b : list A) n : n = length a -> skipn n (a ++ b) = b.
Proof. intros ->. rewrite skipn_app, Nat.sub_diag, skipn_all. reflexivity. Qed.

Lemma take_app a b : take (len a) (a ++ b) = a.
Proof. unfold take, len. apply firstn_app_exact. lia. Qed.

Lemma drop_app a b : drop (len a) (a ++ b) = b.
Proof. unfold drop, len. apply skipn_app_exact. lia. Qed.

Lemma slice_from_app a b : slice_from (a ++ b) (len a) = Ok b.
Proof.
  unfold slice_from. rewrite len_app. pose proof (len_nonneg a). pose proof (len_nonneg b).
  destruct (0 <=? len a) eqn:E1; [|lia]. destruct (len a <=? len a + len b) eqn:E2; [|lia].
  cbn [andb]. f_equal. apply drop_app.
Qed.

Lemma slice_to_app a b : slice_to (a ++ b) (len a) = Ok a.
Proof.
  unfold slice_to. rewrite len_app. pose proof (len_nonneg a). pose proof (len_nonneg b).
  destruct (0 <=? len a) eqn:E1; [|lia]. destruct (len a <=? len a + len b) eqn:E2; [|lia].
  cbn [andb]. f_equal. apply take_app.
Qed.

Lemma twos_id bits u z : 0 < bits -> - 2 ^ (bits - 1) <= z < 2 ^ (bits - 1) -> u = z mod 2 ^ bits -> twos bits u = z.
Proof.
  intros Hb Hz ->. unfold twos.
  assert (E: 2 ^ bits = 2 * 2 ^ (bits - 1)).
  { replace bits with (1 + (bits - 1)) at 1 by lia. rewrite Z.pow_add_r by lia. reflexivity. }
  assert (0 < 2 ^ (bits - 1)) by (apply Z.pow_pos_nonneg; lia).
  destruct (Z.ltb_spec (z mod 2 ^ bits) (2 ^ (bits - 1))) as [H1|H1].
  - destruct (Z.le_gt_cases 0 z).
    + rewrite Z.mod_small by lia. reflexivity.
    + assert (z mod 2 ^ bits = z + 2 ^ bits).
      { symmetry. apply Z.mod_unique with (q := -1); lia. }
      lia.
  - destruct (Z.le_gt_cases 0 z).
    + rewrite Z.mod_small in H1 by lia. lia.
    + assert (z mod 2 ^ bits = z + 2 ^ bits).
      { symmetry. apply Z.mod_unique with (q := -1); lia. }
      lia.
Qed.
