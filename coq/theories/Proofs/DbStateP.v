(* C08: cache coherence of a long-lived handle.  Whatever was cached before,
   every read transaction returns what an uncached reader of the then-current
   file would return, provided writers follow SQLite's change-counter /
   schema-cookie protocol. *)
From SQ Require Import Model.Base Model.Btree Model.Page Model.Header Model.Low Model.DbState.
From Coq Require Import ZifyBool ZifyNat.

(* the writer protocol, as far as the reader relies on it:
   A1  two committed images with the same change counter are the same image
   A2  two committed images with the same schema cookie have the same sqlite_master *)
Definition A1 (img img' : list byte) : Prop :=
  forall h h', hdr img = Ok h -> hdr img' = Ok h' -> h_change h = h_change h' -> img' = img.
Definition A2 (img img' : list byte) : Prop :=
  forall h h', hdr img = Ok h -> hdr img' = Ok h' -> h_cookie h = h_cookie h' -> pure_master img' = pure_master img.

Definition valid_for (img : list byte) (st : dbstate) : Prop :=
  exists h, d_header st = Some h /\ hdr img = Ok h /\
            (forall n p, cache_get (d_cache st) n = Some p -> pure_open img n = Ok p) /\
            (forall m, d_master st = Some m -> m = pure_master img).

Definition fresh (st : dbstate) : Prop := d_header st = None /\ d_cache st = [] /\ d_master st = None.

(* between transactions: nothing cached, or everything cached belongs to [img] *)
Definition W (img : list byte) (st : dbstate) : Prop := fresh st \/ valid_for img st.

Lemma W_init img : W img init_state.
Proof. left. repeat split. Qed.

Lemma W_rlock img st : W img st -> W img (rlock st).
Proof. intros [(A & B & C)|(h & A & B & C & D)]; [left; repeat split; assumption|right; exists h; repeat split; assumption]. Qed.

Lemma resolve_spec img0 e st :
  W img0 st -> d_dirty st = true -> A1 img0 (e_img e) -> A2 img0 (e_img e) -> journal_check e = Ok tt ->
  match hdr (e_img e) with
  | Err x => resolve_dirty e st = Err x
  | Ok h => exists st', resolve_dirty e st = Ok st' /\ d_dirty st' = false /\ valid_for (e_img e) st'
  end.
Proof.
  intros HW Hd H1 H2 Hj. unfold resolve_dirty. rewrite Hd, Hj. cbn [negb bind].
  destruct (hdr (e_img e)) as [h|x] eqn:Eh; cbn [bind]; [|reflexivity].
  eexists. split; [reflexivity|]. split; [reflexivity|].
  exists h. cbn [d_header d_cache d_master]. split; [reflexivity|]. split; [exact Eh|].
  destruct HW as [(A & B & C)|(h0 & A & B & C & D)].
  - rewrite A, B, C. split; [intros n p X; discriminate|intros m X; discriminate].
  - rewrite A. split.
    + destruct (h_change h0 =? h_change h) eqn:Ec; [|intros n p X; discriminate].
      assert (Eimg: e_img e = img0) by (apply (H1 h0 h B Eh); lia). rewrite Eimg. exact C.
    + destruct (h_cookie h0 =? h_cookie h) eqn:Ec; [|intros m X; discriminate].
      intros m X. rewrite (H2 h0 h B Eh) by lia. apply D. exact X.
Qed.

Lemma cache_get_set c n p m :
  cache_get (cache_set c n p) m = if n =? m then Some p else cache_get (if Nat.leb cache_pages (length c) then [] else c) m.
Proof. unfold cache_set. cbn [cache_get]. reflexivity. Qed.

Lemma open_page_spec e st n :
  d_dirty st = false -> valid_for (e_img e) st ->
  exists st', open_page e st n = (pure_open (e_img e) n, st') /\ d_dirty st' = false /\ valid_for (e_img e) st'.
Proof.
  intros Hd (h & A & B & C & D). unfold open_page, resolve_dirty. rewrite Hd. cbn [negb].
  destruct (cache_get (d_cache st) n) as [p|] eqn:Eg.
  - exists st. rewrite (C n p Eg). repeat split; try assumption. exists h. repeat split; assumption.
  - rewrite A. unfold pure_open. rewrite B.
    destruct (openp _ _ n) as [p|x] eqn:Eo.
    + eexists. split; [reflexivity|]. split; [exact Hd|].
      exists h. cbn [d_header d_cache d_master]. repeat split; try assumption.
      intros m q. rewrite cache_get_set. destruct (n =? m) eqn:Enm.
      * intros X; inversion X; subst. assert (m = n) by lia. subst. unfold pure_open. rewrite B. exact Eo.
      * destruct (Nat.leb cache_pages (length (d_cache st))); [intros X; discriminate|apply C].
    + exists st. repeat split; try assumption. exists h. repeat split; assumption.
Qed.

Lemma read_pages_spec e : forall reqs st,
  d_dirty st = false -> valid_for (e_img e) st ->
  fst (read_pages e st reqs) = map (pure_open (e_img e)) reqs /\
  valid_for (e_img e) (snd (read_pages e st reqs)).
Proof.
  induction reqs as [|n rest IH]; intros st Hd Hv; cbn [read_pages map]; [split; [reflexivity|exact Hv]|].
  destruct (open_page_spec e st n Hd Hv) as (st1 & E & Hd1 & Hv1). rewrite E.
  destruct (IH st1 Hd1 Hv1) as [R1 R2]. destruct (read_pages e st1 rest) as [rs st2]. cbn [fst snd] in *.
  split; [f_equal; exact R1|exact R2].
Qed.

(* a failing resolveDirty leaves the state alone and fails every request *)
Lemma read_pages_err e x : forall reqs st, resolve_dirty e st = Err x ->
  read_pages e st reqs = (map (fun _ => Err x) reqs, st).
Proof.
  induction reqs as [|n rest IH]; intros st H; cbn [read_pages map]; [reflexivity|].
  unfold open_page. rewrite H. rewrite (IH st H). reflexivity.
Qed.

Lemma open_page_resolved e st st1 n : resolve_dirty e st = Ok st1 -> d_dirty st1 = false ->
  open_page e st n = open_page e st1 n.
Proof.
  intros H Hd. unfold open_page. rewrite H.
  assert (E: resolve_dirty e st1 = Ok st1) by (unfold resolve_dirty; rewrite Hd; reflexivity).
  rewrite E. reflexivity.
Qed.

(* one transaction: whatever is cached for an earlier image [img0], the
   requests are answered from the current image; afterwards the state is
   consistent with the current image, or (nothing read / header refused) still
   with the earlier one *)
Theorem txn_spec img0 e st reqs :
  W img0 st -> A1 img0 (e_img e) -> A2 img0 (e_img e) -> journal_check e = Ok tt ->
  fst (txn e st reqs) = map (pure_open (e_img e)) reqs /\
  (W (e_img e) (snd (txn e st reqs)) \/ W img0 (snd (txn e st reqs))).
Proof.
  intros HW H1 H2 Hj. unfold txn.
  pose proof (resolve_spec img0 e (rlock st) (W_rlock _ _ HW) eq_refl H1 H2 Hj) as R.
  destruct reqs as [|n rest].
  { cbn [read_pages map fst snd]. split; [reflexivity|]. right. apply W_rlock. exact HW. }
  destruct (hdr (e_img e)) as [h|x] eqn:Eh.
  - destruct R as (st1 & Er & Hd & Hv).
    assert (E: read_pages e (rlock st) (n :: rest) = read_pages e st1 (n :: rest)).
    { cbn [read_pages]. rewrite (open_page_resolved e (rlock st) st1 n Er Hd). reflexivity. }
    rewrite E. destruct (read_pages_spec e (n :: rest) st1 Hd Hv) as [R1 R2].
    split; [exact R1|]. left. right. exact R2.
  - rewrite (read_pages_err e x (n :: rest) (rlock st) R). cbn [fst snd]. split.
    + apply map_ext. intros m. unfold pure_open. rewrite Eh. reflexivity.
    + right. apply W_rlock. exact HW.
Qed.

(* a hot journal without a live RESERVED lock refuses every request *)
Theorem txn_hot_journal e st reqs j :
  e_journal e = Some j -> valid_journal j = true -> e_reserved e = false ->
  fst (txn e st reqs) = map (fun _ => Err EHotJournal) reqs.
Proof.
  intros Hj Hv Hr. unfold txn.
  assert (E: resolve_dirty e (rlock st) = Err EHotJournal).
  { unfold resolve_dirty, journal_check. cbn [rlock d_dirty negb]. rewrite Hj, Hv, Hr. reflexivity. }
  rewrite (read_pages_err e _ reqs (rlock st) E). reflexivity.
Qed.

(* ---------- histories ---------- *)
(* a history of read transactions of one handle, each finding some committed
   image on disk (writers commit between them) *)
Fixpoint run_history (st : dbstate) (hist : list (env * list Z)) : list (list (res page)) :=
  match hist with
  | [] => []
  | (e, reqs) :: rest => let '(rs, st') := txn e st reqs in rs :: run_history st' rest
  end.

Definition protocol (imgs : list (list byte)) : Prop :=
  forall a b, In a imgs -> In b imgs -> A1 a b /\ A2 a b.

Theorem history_coherent : forall hist st img0,
  protocol (img0 :: map (fun x => e_img (fst x)) hist) ->
  (forall x, In x hist -> journal_check (fst x) = Ok tt) ->
  W img0 st ->
  run_history st hist = map (fun x => map (pure_open (e_img (fst x))) (snd x)) hist.
Proof.
  induction hist as [|[e reqs] rest IH]; intros st img0 Hp Hj HW; cbn [run_history map]; [reflexivity|].
  cbn [fst snd].
  assert (P0: A1 img0 (e_img e) /\ A2 img0 (e_img e)) by (apply Hp; [left; reflexivity|right; left; reflexivity]).
  destruct (txn_spec img0 e st reqs HW (proj1 P0) (proj2 P0) (Hj (e, reqs) (or_introl eq_refl))) as [R1 R2].
  destruct (txn e st reqs) as [rs st'] eqn:Et. cbn [fst snd] in *. f_equal; [exact R1|].
  destruct R2 as [HW'|HW'].
  - apply (IH st' (e_img e)); [|intros x Hx; apply Hj; right; exact Hx|exact HW'].
    intros a b Ha Hb. apply Hp; cbn [map In fst] in *; tauto.
  - apply (IH st' img0); [|intros x Hx; apply Hj; right; exact Hx|exact HW'].
    intros a b Ha Hb. apply Hp; cbn [map In fst] in *; tauto.
Qed.

(* repeated reads with no intervening write return identical results, whether
   served from the cache, after a cache overflow, or from the file *)
Corollary history_idempotent e reqs st img0 :
  protocol [img0; e_img e] -> journal_check e = Ok tt -> W img0 st ->
  exists r, run_history st [(e, reqs); (e, reqs)] = [r; r].
Proof.
  intros Hp Hj HW. eexists.
  rewrite (history_coherent [(e, reqs); (e, reqs)] st img0); [reflexivity| | |exact HW].
  - intros a b Ha Hb. apply Hp; cbn [map In fst] in *; tauto.
  - intros x [<-|[<-|[]]]; exact Hj.
Qed.

(* Database.master: the cached objects are those of the current image *)
Lemma master_spec e st :
  d_dirty st = false -> valid_for (e_img e) st ->
  fst (master_st e st) = pure_master (e_img e) /\ valid_for (e_img e) (snd (master_st e st)).
Proof.
  intros Hd (h & A & B & C & D). unfold master_st, resolve_dirty. rewrite Hd. cbn [negb].
  destruct (d_master st) as [m|] eqn:Em; cbn [fst snd].
  - split; [apply D; reflexivity|]. exists h. rewrite Em. repeat split; assumption.
  - split; [reflexivity|]. exists h. cbn [d_header d_cache d_master]. repeat split; try assumption.
    intros m X. inversion X. reflexivity.
Qed.

(* C15: the header is validated again for every transaction, and every call
   of a transaction that finds an unacceptable header fails with that verdict *)
Corollary txn_bad_header img0 e st reqs x :
  W img0 st -> A1 img0 (e_img e) -> A2 img0 (e_img e) -> journal_check e = Ok tt ->
  hdr (e_img e) = Err x -> fst (txn e st reqs) = map (fun _ => Err x) reqs.
Proof.
  intros HW H1 H2 Hj Hx. destruct (txn_spec img0 e st reqs HW H1 H2 Hj) as [R _]. rewrite R.
  apply map_ext. intros n. unfold pure_open. rewrite Hx. reflexivity.
Qed.
