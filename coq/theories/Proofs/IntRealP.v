(* C11, the integer-against-real case of compare(): truncate the real, compare
   the integers, and on a tie compare float64(i) with r - equals the exact
   comparison of the integer with the dyadic value of the real, for every
   int64 and every non-NaN binary64. *)
From Coq Require Import ZArith Lia Bool.
From SQ Require Import Model.Base Model.Record Model.Float Model.Cmp Spec.Order Proofs.CmpP.
Open Scope Z_scope.

Lemma dy_cmp_scale m e k x : 0 <= k -> dy_cmp (m * 2 ^ k, e) x = dy_cmp (m, e + k) x.
Proof.
  intros Hk. destruct x as [m2 e2]. set (E := Z.min e e2).
  rewrite (dy_cmp_common (m * 2 ^ k) e m2 e2 E), (dy_cmp_common m (e + k) m2 e2 E) by (unfold E; lia).
  replace (e + k - E) with (k + (e - E)) by lia. rewrite Z.pow_add_r by (unfold E; lia).
  rewrite Z.mul_assoc. reflexivity.
Qed.

Lemma fexp_range r : 0 <= fexp r < 2048.
Proof. unfold fexp. apply Z.mod_pos_bound. lia. Qed.
Lemma ffrac_range r : 0 <= ffrac r < 2 ^ 52.
Proof. unfold ffrac. apply Z.mod_pos_bound. lia. Qed.

Lemma finite_exp r : is_inf r = false -> is_nan r = false -> fexp r <> 2047.
Proof.
  unfold is_inf, is_nan. intros Hi Hn E. rewrite E in *. cbn in *. destruct (ffrac r =? 0); discriminate.
Qed.

Lemma fval_bounds r : is_inf r = false -> is_nan r = false ->
  - 2 ^ 53 < fst (fval r) < 2 ^ 53 /\ - 1074 <= snd (fval r) <= 971.
Proof.
  intros Hi Hn. pose proof (finite_exp r Hi Hn) as He. pose proof (fexp_range r) as Hx. pose proof (ffrac_range r) as Hf.
  unfold fval. change (2 ^ 52) with 4503599627370496 in *. change (2 ^ 53) with 9007199254740992.
  destruct (fexp r =? 0) eqn:E0; destruct (fsign r); cbn [fst snd]; lia.
Qed.

Lemma dy_cmp_zero e e' x : dy_cmp (0, e) x = dy_cmp (0, e') x.
Proof.
  destruct x as [m2 e2]. set (E := Z.min (Z.min e e') e2).
  rewrite (dy_cmp_common 0 e m2 e2 E), (dy_cmp_common 0 e' m2 e2 E) by (unfold E; lia). reflexivity.
Qed.

(* putting sign, biased exponent and mantissa together gives them back *)
Lemma compose_fields (s : bool) e m : 0 < e < 2047 -> 2 ^ 52 <= m < 2 ^ 53 ->
  let b := (if s then 2 ^ 63 else 0) + e * 2 ^ 52 + (m - 2 ^ 52) in
  fexp b = e /\ ffrac b = m - 2 ^ 52 /\ fsign b = s /\ 0 <= b < 2 ^ 64.
Proof.
  intros He Hm. cbv zeta. unfold fexp, ffrac, fsign.
  change (2 ^ 52) with 4503599627370496 in *. change (2 ^ 53) with 9007199254740992 in *.
  change (2 ^ 63) with 9223372036854775808. change (2 ^ 64) with 18446744073709551616.
  destruct s.
  - repeat split; try (Z.div_mod_to_equations; lia); try (apply Z.leb_le; lia).
  - repeat split; try (Z.div_mod_to_equations; lia); try (apply Z.leb_gt; lia).
Qed.

Lemma compose_fval (s : bool) e m : 0 < e < 2047 -> 2 ^ 52 <= m < 2 ^ 53 ->
  let b := (if s then 2 ^ 63 else 0) + e * 2 ^ 52 + (m - 2 ^ 52) in
  fval b = ((if s then - m else m), e - 1075) /\ is_nan b = false /\ is_inf b = false /\ 0 <= b < 2 ^ 64.
Proof.
  intros He Hm. cbv zeta. destruct (compose_fields s e m He Hm) as (A & B & C & D). cbv zeta in A, B, C, D.
  unfold fval, is_nan, is_inf. rewrite A, B, C.
  assert (e =? 0 = false) as -> by (apply Z.eqb_neq; lia).
  assert (e =? 2047 = false) as -> by (apply Z.eqb_neq; lia).
  cbn [andb]. repeat split; try lia.
  f_equal. destruct s; f_equal; lia.
Qed.

(* at most 53 significant bits *)
Definition sig53 (z : Z) : Prop :=
  let a := Z.abs z in let l := Z.log2 a in l <= 52 \/ a mod 2 ^ (l - 52) = 0.

Lemma signed_abs z : (if z <? 0 then - Z.abs z else Z.abs z) = z.
Proof. destruct (z <? 0) eqn:E; [apply Z.ltb_lt in E|apply Z.ltb_ge in E]; lia. Qed.

(* float64(z) is exact on such integers *)
Lemma f_of_int_exact z : - 2 ^ 63 <= z <= 2 ^ 63 -> sig53 z ->
  is_nan (f_of_int z) = false /\ is_inf (f_of_int z) = false /\ 0 <= f_of_int z < 2 ^ 64 /\
  forall x, dy_cmp (fval (f_of_int z)) x = dy_cmp (z, 0) x.
Proof.
  intros Hr Hs. unfold f_of_int. destruct (z =? 0) eqn:Ez.
  - apply Z.eqb_eq in Ez. subst. split; [reflexivity|]. split; [reflexivity|]. split; [lia|].
    intros x. change (fval 0) with (0, -1074). apply dy_cmp_zero.
  - apply Z.eqb_neq in Ez. unfold sig53 in Hs. cbv zeta in *.
    set (a := Z.abs z) in *. set (l := Z.log2 a) in *.
    assert (Ha : 0 < a) by (unfold a; lia).
    destruct (Z.log2_spec a Ha) as [Hl1 Hl2]. fold l in Hl1, Hl2.
    assert (Hl0 : 0 <= l) by apply Z.log2_nonneg.
    assert (Hl63 : l <= 63).
    { destruct (Z_le_gt_dec l 63) as [|G]; [assumption|]. exfalso.
      assert (2 ^ 64 <= 2 ^ l) by (apply Z.pow_le_mono_r; lia). unfold a in *. lia. }
    assert (Hsa : (if z <? 0 then - a else a) = z) by apply signed_abs.
    destruct (l <=? 52) eqn:El.
    + apply Z.leb_le in El. set (m := a * 2 ^ (52 - l)).
      assert (Hp : 2 ^ l * 2 ^ (52 - l) = 2 ^ 52) by (rewrite <- Z.pow_add_r by lia; f_equal; lia).
      assert (Hp' : 2 ^ Z.succ l * 2 ^ (52 - l) = 2 ^ 53) by (rewrite <- Z.pow_add_r by lia; f_equal; lia).
      assert (Hq : 0 < 2 ^ (52 - l)) by (apply pow2_pos; lia).
      assert (Hm : 2 ^ 52 <= m < 2 ^ 53) by (unfold m; nia).
      destruct (compose_fval (z <? 0) (l + 1023) m) as (A & B & C & D); [lia|exact Hm|].
      cbv zeta in A, B, C, D. rewrite A. repeat split; auto; try lia. intros x.
      replace (l + 1023 - 1075) with (l - 52) by lia.
      replace (if z <? 0 then - m else m) with (z * 2 ^ (52 - l)) by (unfold m; rewrite <- Hsa at 1; destruct (z <? 0); lia).
      rewrite dy_cmp_scale by lia. f_equal. f_equal. lia.
    + apply Z.leb_gt in El. destruct Hs as [Hs|Hs]; [lia|].
      set (sh := l - 52) in *. assert (Hsh : 1 <= sh) by (unfold sh; lia).
      rewrite Hs.
      assert (Hd : 0 < 2 ^ sh) by (apply pow2_pos; lia).
      assert (Hh : 0 < 2 ^ (sh - 1)) by (apply pow2_pos; lia).
      assert (E1 : (2 ^ (sh - 1) <? 0) = false) by (apply Z.ltb_ge; lia).
      assert (E2 : (0 =? 2 ^ (sh - 1)) = false) by (apply Z.eqb_neq; lia).
      rewrite E1, E2. cbn [orb andb].
      set (q := a / 2 ^ sh).
      assert (Haq : a = q * 2 ^ sh) by (unfold q; pose proof (Z.div_mod a (2 ^ sh)); lia).
      assert (Hp : 2 ^ 52 * 2 ^ sh = 2 ^ l) by (rewrite <- Z.pow_add_r by lia; f_equal; unfold sh; lia).
      assert (Hp' : 2 ^ 53 * 2 ^ sh = 2 ^ Z.succ l) by (rewrite <- Z.pow_add_r by lia; f_equal; unfold sh; lia).
      assert (Hm : 2 ^ 52 <= q < 2 ^ 53) by nia.
      assert (E3 : (q =? 2 ^ 53) = false) by (apply Z.eqb_neq; lia). rewrite E3.
      destruct (compose_fval (z <? 0) (l + 1023) q) as (A & B & C & D); [lia|exact Hm|].
      cbv zeta in A, B, C, D. rewrite A. repeat split; auto; try lia. intros x.
      replace (l + 1023 - 1075) with (0 + sh) by (unfold sh; lia).
      rewrite <- dy_cmp_scale by lia. f_equal. f_equal.
      rewrite <- Hsa at 2. rewrite Haq. destruct (z <? 0); lia.
Qed.

Lemma dy_cmp_int_pos m e z : 0 <= e -> dy_cmp (m, e) (z, 0) = (m * 2 ^ e ?= z).
Proof.
  intros He. rewrite (dy_cmp_common m e z 0 0) by lia. rewrite Z.sub_0_r, Z.sub_diag. cbn [Z.pow]. rewrite Z.mul_1_r. reflexivity.
Qed.
Lemma dy_cmp_int_neg m e z : e < 0 -> dy_cmp (m, e) (z, 0) = (m ?= z * 2 ^ (- e)).
Proof.
  intros He. rewrite (dy_cmp_common m e z 0 e) by lia. rewrite Z.sub_diag. cbn [Z.pow]. rewrite Z.mul_1_r.
  replace (0 - e) with (- e) by lia. reflexivity.
Qed.

Lemma sig53_small z : Z.abs z < 2 ^ 53 -> sig53 z.
Proof.
  intros H. unfold sig53. cbv zeta. left.
  destruct (Z.eq_dec (Z.abs z) 0) as [->|Hn]; [cbn; lia|].
  assert (Z.log2 (Z.abs z) < 53) by (apply Z.log2_lt_pow2; lia). lia.
Qed.

Lemma sig53_shift m e : Z.abs m < 2 ^ 53 -> 0 <= e -> sig53 (m * 2 ^ e).
Proof.
  intros Hm He. unfold sig53. cbv zeta.
  destruct (Z.eq_dec m 0) as [->|Hn]; [left; cbn; lia|].
  assert (Hp : 0 < 2 ^ e) by (apply pow2_pos; lia).
  rewrite Z.abs_mul, (Z.abs_eq (2 ^ e)) by lia.
  rewrite Z.log2_mul_pow2 by lia.
  assert (Hl : Z.log2 (Z.abs m) < 53) by (apply Z.log2_lt_pow2; lia).
  assert (Hl0 : 0 <= Z.log2 (Z.abs m)) by apply Z.log2_nonneg.
  destruct (Z_le_gt_dec (e + Z.log2 (Z.abs m)) 52) as [|G]; [left; assumption|right].
  set (k := e + Z.log2 (Z.abs m) - 52).
  replace (2 ^ e) with (2 ^ (e - k) * 2 ^ k) by (rewrite <- Z.pow_add_r by (unfold k; lia); f_equal; lia).
  rewrite Z.mul_assoc. apply Z.mod_mul. assert (0 < 2 ^ k) by (apply pow2_pos; unfold k; lia). lia.
Qed.

Definition exact_cmp (i r : Z) : comparison :=
  match num_of (VReal r) with Some y => num_cmp (NFin i 0) y | None => Eq end.

Lemma tie_break i r m e : - 2 ^ 63 <= i <= 2 ^ 63 -> sig53 i ->
  is_nan r = false -> is_inf r = false -> fval r = (m, e) ->
  cmp_float64 (f_of_int i) r = of_cmp (dy_cmp (i, 0) (m, e)).
Proof.
  intros Hi Hs Hn Hf Ev. destruct (f_of_int_exact i Hi Hs) as (A & B & _ & D).
  unfold cmp_float64, fcmp. rewrite A, Hn, B, Hf. cbn [orb]. rewrite D, Ev.
  destruct (dy_cmp (i, 0) (m, e)); reflexivity.
Qed.

Ltac decide_cmp tac :=
  match goal with
  | |- context [?a ?= ?b] => destruct (Z.compare_spec a b); cbn [CompOpp of_cmp]; try reflexivity; try (exfalso; tac)
  end.

Theorem cmp_int_float_spec i r : - 2 ^ 63 <= i < 2 ^ 63 -> 0 <= r < 2 ^ 64 -> is_nan r = false ->
  cmp_int_float i r = of_cmp (exact_cmp i r).
Proof.
  intros Hi Hr Hn. unfold cmp_int_float, exact_cmp. cbn [num_of]. rewrite Hn.
  unfold f_cmp_int. destruct (is_inf r) eqn:Hf.
  - destruct (fsign r); reflexivity.
  - destruct (fval r) as [m e] eqn:Ev. cbn [fst snd num_cmp].
    pose proof (fval_bounds r Hf Hn) as [Hm He]. rewrite Ev in Hm, He. cbn [fst snd] in Hm, He.
    rewrite (dy_cmp_antisym (m, e) (i, 0)).
    destruct (Z_le_gt_dec 0 e) as [Hpos|Hneg].
    + (* the real is the integer m * 2^e *)
      rewrite !dy_cmp_int_pos by lia. unfold f_trunc. rewrite Ev.
      assert ((0 <=? e) = true) as -> by (apply Z.leb_le; lia).
      remember (m * 2 ^ e) as v eqn:Hv.
      destruct (Z.compare_spec v (- 2 ^ 63)) as [C1|C1|C1].
      * destruct (Z.compare_spec v (2 ^ 63)) as [C2|C2|C2]; try lia.
        destruct (Z.ltb_spec i v) as [L1|L1]; [lia|]. destruct (Z.ltb_spec v i) as [L2|L2].
        -- decide_cmp lia.
        -- assert (i = v) by lia. subst i.
           rewrite (tie_break v r m e); [|lia|rewrite Hv; apply sig53_shift; lia|assumption|assumption|assumption].
           rewrite (dy_cmp_antisym (m, e) (v, 0)), dy_cmp_int_pos by lia. rewrite <- Hv. reflexivity.
      * decide_cmp lia.
      * destruct (Z.compare_spec v (2 ^ 63)) as [C2|C2|C2].
        -- decide_cmp lia.
        -- destruct (Z.ltb_spec i v) as [L1|L1]; [decide_cmp lia|]. destruct (Z.ltb_spec v i) as [L2|L2]; [decide_cmp lia|].
           assert (i = v) by lia. subst i.
           rewrite (tie_break v r m e); [|lia|rewrite Hv; apply sig53_shift; lia|assumption|assumption|assumption].
           rewrite (dy_cmp_antisym (m, e) (v, 0)), dy_cmp_int_pos by lia. rewrite <- Hv. reflexivity.
        -- decide_cmp lia.
    + (* the real is m / 2^(-e) *)
      rewrite !dy_cmp_int_neg by lia. unfold f_trunc. rewrite Ev.
      assert ((0 <=? e) = false) as -> by (apply Z.leb_gt; lia).
      remember (2 ^ (- e)) as D eqn:HD'. assert (HD : 0 < D) by (rewrite HD'; apply pow2_pos; lia).
      pose proof (Z.quot_rem' m D) as Hq. pose proof (Z.rem_bound_abs m D ltac:(lia)) as Hrb.
      remember (Z.quot m D) as y eqn:Hy. remember (Z.rem m D) as rm eqn:Hrm.
      assert (Hrb' : - D < rm < D) by lia.
      assert (Hsg : (0 <= m -> 0 <= rm) /\ (m <= 0 -> rm <= 0)).
      { rewrite Hrm. split; intros G; [apply Z.rem_nonneg; lia|apply Z.rem_nonpos; lia]. }
      assert (Hys : (0 <= m -> 0 <= y) /\ (m <= 0 -> y <= 0)).
      { rewrite Hy. split; intros G; [apply Z.quot_pos; lia|].
        replace m with (- - m) by lia. rewrite Z.quot_opp_l by lia. assert (0 <= Z.quot (- m) D) by (apply Z.quot_pos; lia). lia. }
      assert (Hay : Z.abs y <= Z.abs m) by nia.
      destruct (Z.compare_spec m (- 2 ^ 63 * D)) as [C1|C1|C1].
      * exfalso. nia.
      * decide_cmp nia.
      * destruct (Z.compare_spec m (2 ^ 63 * D)) as [C2|C2|C2].
        -- decide_cmp nia.
        -- destruct (Z.ltb_spec i y) as [L1|L1]; [decide_cmp nia|]. destruct (Z.ltb_spec y i) as [L2|L2]; [decide_cmp nia|].
           assert (i = y) by lia. subst i.
           rewrite (tie_break y r m e); [|lia|apply sig53_small; lia|assumption|assumption|assumption].
           rewrite (dy_cmp_antisym (m, e) (y, 0)), dy_cmp_int_neg by lia. rewrite <- HD'. reflexivity.
        -- decide_cmp nia.
Qed.

(* compare() of db/cmp.go computes SQLite's order on every pair of storable values *)
Theorem compare_spec c a b : storable a -> storable b -> compare a b c = of_cmp (s_cmp c a b).
Proof.
  intros Sa Sb. destruct (mixed a b) eqn:Hm; [|apply compare_spec_unmixed; assumption].
  destruct a, b; cbn [mixed] in Hm; try discriminate; cbn [compare]; unfold s_cmp; cbn [vclass Z.compare Pos.compare Pos.compare_cont].
  - cbn in Sa, Sb. destruct Sb as [Hb Nb]. rewrite (cmp_int_float_spec z bits Sa Hb Nb). unfold exact_cmp.
    cbn [num_of]. rewrite Nb. destruct (is_inf bits); reflexivity.
  - cbn in Sa, Sb. destruct Sa as [Ha Na]. rewrite (cmp_int_float_spec z bits Sb Ha Na). unfold exact_cmp.
    cbn [num_of]. rewrite Na. rewrite <- of_cmp_opp.
    destruct (is_inf bits); [destruct (fsign bits); reflexivity|].
    rewrite <- num_cmp_antisym. reflexivity.
Qed.

Lemma agrees_storable k : forall r, Forall (fun kc => storable (kv kc)) k -> Forall storable r -> agrees k r.
Proof.
  induction k as [|kc k IH]; intros [|v r] Hk Hr; cbn [agrees]; auto.
  inversion Hk; subst. inversion Hr; subst. split; [apply compare_spec; assumption|apply IH; assumption].
Qed.
