(* Facts about delivering a list of rows to a callback: the invocations form
   a prefix, early stop yields exactly the first k rows, the until-wrappers of
   the range / equality scans yield take_while segments. *)
From SQ Require Import Model.Base Model.Btree Spec.Flat Spec.Deliver Proofs.BtreeP.
From Coq Require Import ZifyBool ZifyNat.

Section DeliverP.
  Variable S : Type.
  Variable A : Type.
  Variable cb : A -> S -> flow * S.

  Lemma deliver_run l : forall s, snd (deliver cb l s) = run_cb cb l s.
  Proof.
    induction l as [|x l IH]; intros s; cbn [deliver run_cb]; [reflexivity|].
    destruct (cb x s) as [[| |e] s'] eqn:E; cbn [Btree.andthen snd]; try reflexivity.
    specialize (IH s'). destruct (deliver cb l s') as [d fs]. exact IH.
  Qed.

  (* the callback is invoked on a prefix of the list, in order, each once *)
  Lemma deliver_prefix l : forall s, exists rest, l = fst (deliver cb l s) ++ rest.
  Proof.
    induction l as [|x l IH]; intros s; cbn [deliver].
    - exists []. reflexivity.
    - destruct (cb x s) as [[| |e] s'] eqn:E.
      + destruct (IH s') as [rest Hr]. destruct (deliver cb l s') as [d fs]. cbn [fst] in *.
        exists rest. cbn [app]. f_equal. exact Hr.
      + exists l. reflexivity.
      + exists l. reflexivity.
  Qed.

  (* a traversal that was not cut short delivered everything *)
  Lemma deliver_all l : forall s, fst (snd (deliver cb l s)) = Continue -> fst (deliver cb l s) = l.
  Proof.
    induction l as [|x l IH]; intros s; cbn [deliver]; [reflexivity|].
    destruct (cb x s) as [[| |e] s'] eqn:E; cbn [fst snd]; try discriminate.
    specialize (IH s'). destruct (deliver cb l s') as [d fs]. cbn [fst snd] in *.
    intros H. f_equal. auto.
  Qed.

  (* a cut short traversal: the last invocation is the one that said so, and
     it is the only one that did *)
  Lemma deliver_cut l : forall s, fst (snd (deliver cb l s)) <> Continue ->
    exists d x s0, fst (deliver cb l s) = d ++ [x] /\
                   run_cb cb d s = (Continue, s0) /\ cb x s0 = snd (deliver cb l s).
  Proof.
    induction l as [|x l IH]; intros s; cbn [deliver]; [cbn; congruence|].
    destruct (cb x s) as [[| |e] s'] eqn:E; cbn [fst snd].
    - specialize (IH s'). destruct (deliver cb l s') as [d fs]. cbn [fst snd] in *.
      intros H. destruct (IH H) as (d0 & y & s0 & -> & Hr & Hy).
      exists (x :: d0), y, s0. split; [reflexivity|]. split; [|exact Hy].
      cbn [run_cb]. rewrite E. cbn [Btree.andthen]. exact Hr.
    - intros _. exists [], x, s. cbn. auto.
    - intros _. exists [], x, s. cbn. auto.
  Qed.

  Lemma until_take_while (p : A -> bool) l : forall s,
    outcome (run_cb (until p cb) l s) = outcome (run_cb cb (take_while (fun x => negb (p x)) l) s).
  Proof.
    induction l as [|x l IH]; intros s; cbn [run_cb take_while]; [reflexivity|].
    unfold until at 1. destruct (p x); cbn [negb run_cb Btree.andthen]; [reflexivity|].
    destruct (cb x s) as [[| |e] s']; cbn [Btree.andthen]; auto.
  Qed.

  Lemma outcome_run_flat_none l s : run_flat cb (l, None) s = run_cb cb l s.
  Proof. unfold run_flat. cbn [fst snd]. apply andthen_continue. Qed.
End DeliverP.

Section StopAfter.
  Variable A : Type.

  Lemma stop_after_acc k (l : list A) : forall s, (length s < k)%nat ->
    run_cb (stop_after (Some k)) l s =
    if Nat.leb (k - length s) (length l)
    then (Stop, rev (firstn (k - length s) l) ++ s)
    else (Continue, rev l ++ s).
  Proof.
    induction l as [|x l IH]; intros s Hs; cbn [run_cb].
    - destruct (Nat.leb_spec (k - length s) (@length A [])); cbn [length] in *; [lia|reflexivity].
    - unfold stop_after at 1. cbn [length].
      destruct (Nat.leb_spec k (Datatypes.S (length s))) as [Hk|Hk]; cbn [Btree.andthen].
      + assert (E: (k - length s = 1)%nat) by lia. rewrite E. cbn [Nat.leb firstn rev app]. reflexivity.
      + rewrite IH by (cbn [length]; lia). cbn [length].
        replace (k - length s)%nat with (Datatypes.S (k - Datatypes.S (length s))) by lia.
        cbn [Nat.leb firstn rev]. destruct (Nat.leb (k - Datatypes.S (length s)) (length l)).
        * rewrite <- app_assoc. reflexivity.
        * rewrite <- app_assoc. reflexivity.
  Qed.

  (* stopping after k rows: exactly the first k, unchanged, no error *)
  Theorem stop_after_firstn k (l : list A) : (1 <= k <= length l)%nat ->
    run_cb (stop_after (Some k)) l [] = (Stop, rev (firstn k l)).
  Proof.
    intros Hk. rewrite stop_after_acc by (cbn; lia). cbn [length]. rewrite Nat.sub_0_r.
    destruct (Nat.leb_spec k (length l)); [|lia]. rewrite app_nil_r. reflexivity.
  Qed.

  (* ... and the callback was invoked exactly k times *)
  Theorem stop_after_calls k (l : list A) : (1 <= k <= length l)%nat ->
    fst (deliver (stop_after (Some k)) l []) = firstn k l.
  Proof.
    intros Hk.
    assert (G: forall (l : list A) (s : list A), (length s < k)%nat -> (k - length s <= length l)%nat ->
               fst (deliver (stop_after (Some k)) l s) = firstn (k - length s) l).
    { clear l Hk. induction l as [|x l IH]; intros s Hs Hl; cbn [length] in *; [lia|].
      cbn [deliver]. unfold stop_after at 1. cbn [length].
      destruct (Nat.leb_spec k (Datatypes.S (length s))) as [H|H].
      - replace (k - length s)%nat with 1%nat by lia. reflexivity.
      - specialize (IH (x :: s)). cbn [length] in IH.
        destruct (deliver (stop_after (Some k)) l (x :: s)) as [d fs]. cbn [fst] in *.
        replace (k - length s)%nat with (Datatypes.S (k - Datatypes.S (length s))) by lia.
        cbn [firstn]. f_equal. apply IH; lia. }
    rewrite G; cbn [length]; try lia. rewrite Nat.sub_0_r. reflexivity.
  Qed.

  Theorem stop_after_none (l : list A) s : run_cb (stop_after None) l s = (Continue, rev l ++ s).
  Proof.
    revert s; induction l as [|x l IH]; intros s; cbn [run_cb]; [reflexivity|].
    unfold stop_after at 1. cbn [Btree.andthen]. rewrite IH. cbn [rev]. rewrite <- app_assoc. reflexivity.
  Qed.
End StopAfter.
