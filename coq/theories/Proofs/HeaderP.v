(* parseHeader: which 100-byte headers are accepted (C15) *)
From SQ Require Import Model.Base Model.Header Proofs.BaseP.
From Coq Require Import ZifyBool.

Definition legal_sizes : list Z := [512; 1024; 2048; 4096; 8192; 16384; 32768; 65536].

(* the page size a header declares: the 16-bit field, 1 meaning 65536 *)
Definition declared_pagesize (b : list byte) : Z :=
  let s0 := fld b 16 2 in if s0 =? 1 then 65536 else s0.

Definition magic_ok (b : list byte) : bool :=
  forallb (fun p => b2z (fst p) =? snd p) (combine (take 16 b) header_magic).

Definition expansion_zero (b : list byte) : bool :=
  forallb (fun c => b2z c =? 0) (take 20 (drop 72 b)).

(* the headers sqlittle reads: a plain UTF-8, rollback-journal, no reserved
   space database of a legal page size in schema format 2..4 *)
Record accept (b : list byte) : Prop := {
  a_len : 100 <= len b;
  a_magic : magic_ok b = true;
  a_size : In (declared_pagesize b) legal_sizes;
  a_read : fld b 19 1 = 1;
  a_reserved : fld b 20 1 = 0;
  a_fractions : fld b 21 1 = 64 /\ fld b 22 1 = 32 /\ fld b 23 1 = 32;
  a_format : fld b 44 4 = 2 \/ fld b 44 4 = 3 \/ fld b 44 4 = 4;
  a_encoding : fld b 56 4 = 1;
  a_expansion : expansion_zero b = true }.

Lemma legal_sizes_spec s : In s legal_sizes <->
  ((s <? 512) || (65536 <? s) || negb (existsb (Z.eqb s) legal_sizes)) = false.
Proof.
  unfold legal_sizes. cbn [In existsb]. split.
  - intros H. repeat (destruct H as [<-|H]; [reflexivity|]). destruct H.
  - intros H. lia.
Qed.

Theorem parse_header_accept b : accept b ->
  parse_header b = Ok {| h_pagesize := declared_pagesize b; h_change := fld b 24 4; h_cookie := fld b 40 4 |}.
Proof.
  intros [Hl Hm Hs Hr Hres (F1 & F2 & F3) Hf He Hx]. unfold parse_header.
  destruct (len b <? 100) eqn:E; [lia|]. fold (magic_ok b). rewrite Hm. cbn [negb].
  fold (declared_pagesize b). apply legal_sizes_spec in Hs. unfold legal_sizes in Hs. rewrite Hs.
  rewrite Hr, Hres, F1, F2, F3. cbn [Z.eqb Pos.eqb negb andb].
  assert (Hf': ((fld b 44 4 =? 2) || (fld b 44 4 =? 3) || (fld b 44 4 =? 4)) = true) by lia.
  rewrite Hf'. cbn [negb]. rewrite He. cbn [Z.eqb Pos.eqb orb negb].
  fold (expansion_zero b). rewrite Hx. reflexivity.
Qed.

Theorem parse_header_ok_accept b hd : parse_header b = Ok hd -> accept b.
Proof.
  unfold parse_header. destruct (len b <? 100) eqn:El; [discriminate|].
  fold (magic_ok b). destruct (magic_ok b) eqn:Em; cbn [negb]; [|discriminate].
  fold (declared_pagesize b).
  destruct ((declared_pagesize b <? 512) || (65536 <? declared_pagesize b) ||
            negb (existsb (Z.eqb (declared_pagesize b)) [512; 1024; 2048; 4096; 8192; 16384; 32768; 65536])) eqn:Es; [discriminate|].
  destruct (fld b 19 1 =? 2) eqn:E2; [discriminate|].
  destruct (fld b 19 1 =? 1) eqn:E1; cbn [negb]; [|discriminate].
  destruct (fld b 20 1 =? 0) eqn:Er; cbn [negb]; [|discriminate].
  destruct ((fld b 21 1 =? 64) && (fld b 22 1 =? 32) && (fld b 23 1 =? 32)) eqn:Ef; cbn [negb]; [|discriminate].
  destruct ((fld b 44 4 =? 2) || (fld b 44 4 =? 3) || (fld b 44 4 =? 4)) eqn:Esf; cbn [negb]; [|discriminate].
  destruct ((fld b 56 4 =? 2) || (fld b 56 4 =? 3)) eqn:Ee; [discriminate|].
  destruct (fld b 56 4 =? 1) eqn:Ee1; cbn [negb]; [|discriminate].
  fold (expansion_zero b). destruct (expansion_zero b) eqn:Ex; cbn [negb]; [|discriminate].
  intros _. constructor; try lia; try assumption.
  apply legal_sizes_spec. exact Es.
Qed.

(* the must-reject classes of the property, each by the value of one field *)
Corollary reject_of_not_accept b : ~ accept b -> exists e, parse_header b = Err e.
Proof.
  intros H. destruct (parse_header b) as [hd|e] eqn:E; [|eauto].
  exfalso. apply H. eapply parse_header_ok_accept. exact E.
Qed.

Theorem reject_wal b : fld b 19 1 = 2 -> exists e, parse_header b = Err e.
Proof. intros H. apply reject_of_not_accept. intros A. pose proof (a_read b A). lia. Qed.

Theorem reject_read_version b : fld b 19 1 <> 1 -> exists e, parse_header b = Err e.
Proof. intros H. apply reject_of_not_accept. intros A. pose proof (a_read b A). lia. Qed.

Theorem reject_utf16 b : fld b 56 4 = 2 \/ fld b 56 4 = 3 -> exists e, parse_header b = Err e.
Proof. intros H. apply reject_of_not_accept. intros A. pose proof (a_encoding b A). lia. Qed.

Theorem reject_reserved b : fld b 20 1 <> 0 -> exists e, parse_header b = Err e.
Proof. intros H. apply reject_of_not_accept. intros A. pose proof (a_reserved b A). lia. Qed.

Theorem reject_schema_format b : 4 < fld b 44 4 -> exists e, parse_header b = Err e.
Proof. intros H. apply reject_of_not_accept. intros A. pose proof (a_format b A). lia. Qed.

Theorem reject_magic b : magic_ok b = false -> exists e, parse_header b = Err e.
Proof. intros H. apply reject_of_not_accept. intros A. pose proof (a_magic b A). congruence. Qed.

Theorem reject_pagesize b : ~ In (declared_pagesize b) legal_sizes -> exists e, parse_header b = Err e.
Proof. intros H. apply reject_of_not_accept. intros A. exact (H (a_size b A)). Qed.

Theorem reject_short b : len b < 100 -> exists e, parse_header b = Err e.
Proof. intros H. apply reject_of_not_accept. intros A. pose proof (a_len b A). lia. Qed.

(* fields that do not affect reading: the verdict and the page size depend
   only on bytes 0..23, 44..47, 56..59, 72..91 *)
Definition relevant (i : nat) : bool :=
  ((i <? 24) || ((44 <=? i) && (i <? 48)) || ((56 <=? i) && (i <? 60)) || ((72 <=? i) && (i <? 92)))%nat.

Lemma list_ext {A} (a : list A) : forall b, (forall i, nth_error a i = nth_error b i) -> a = b.
Proof.
  induction a as [|x a IH]; intros [|y b] H; try reflexivity.
  - specialize (H 0%nat). discriminate.
  - specialize (H 0%nat). discriminate.
  - pose proof (H 0%nat) as H0. cbn in H0. inversion H0; subst. f_equal. apply IH.
    intros i. apply (H (S i)).
Qed.

Lemma ne_skipn {A} (l : list A) : forall off i, nth_error (skipn off l) i = nth_error l (off + i).
Proof.
  induction l as [|x l IH]; intros off i.
  - rewrite skipn_nil. destruct i, off; reflexivity.
  - destruct off as [|off]; [reflexivity|]. cbn [skipn Nat.add nth_error]. apply IH.
Qed.

Lemma ne_firstn {A} (l : list A) : forall n i,
  nth_error (firstn n l) i = if (i <? n)%nat then nth_error l i else None.
Proof.
  induction l as [|x l IH]; intros n i.
  - rewrite firstn_nil. destruct i; destruct (_ <? n)%nat; reflexivity.
  - destruct n as [|n]; [destruct i; reflexivity|]. destruct i as [|i]; [reflexivity|].
    cbn [firstn nth_error]. rewrite IH. reflexivity.
Qed.

Lemma window_eq {A} (b b' : list A) off n :
  (forall i, (off <= i < off + n)%nat -> nth_error b i = nth_error b' i) ->
  firstn n (skipn off b) = firstn n (skipn off b').
Proof.
  intros H. apply list_ext. intros i. rewrite !ne_firstn, !ne_skipn.
  destruct (Nat.ltb_spec i n); [|reflexivity]. apply H. lia.
Qed.

Lemma fld_eq b b' off n : 0 <= off -> 0 <= n ->
  (forall i, (Z.to_nat off <= i < Z.to_nat off + Z.to_nat n)%nat -> nth_error b i = nth_error b' i) ->
  fld b off n = fld b' off n.
Proof. intros Ho Hn H. unfold fld, take, drop. f_equal. apply window_eq. exact H. Qed.

(* header fields that do not affect reading may hold any value *)
Theorem accept_irrelevant b b' : length b = length b' ->
  (forall i, relevant i = true -> nth_error b i = nth_error b' i) ->
  accept b -> accept b' /\ declared_pagesize b' = declared_pagesize b.
Proof.
  intros Hl H A.
  assert (F: forall off n, 0 <= off -> 0 <= n ->
             (forall i, (Z.to_nat off <= i < Z.to_nat off + Z.to_nat n)%nat -> relevant i = true) ->
             fld b' off n = fld b off n).
  { intros off n Ho Hn Hr. symmetry. apply fld_eq; try assumption. intros i Hi. apply H. apply Hr. exact Hi. }
  assert (R: forall lo hi i, (lo <= i < hi)%nat -> ((hi <= 24)%nat \/ (44 <= lo /\ hi <= 48)%nat \/ (56 <= lo /\ hi <= 60)%nat \/ (72 <= lo /\ hi <= 92)%nat) ->
             relevant i = true).
  { intros lo hi i Hi Hc. unfold relevant. lia. }
  assert (F16: fld b' 16 2 = fld b 16 2) by (apply F; try lia; intros i Hi; apply (R 16%nat 18%nat); lia).
  assert (P: declared_pagesize b' = declared_pagesize b) by (unfold declared_pagesize; rewrite F16; reflexivity).
  split; [|exact P].
  destruct A as [Al Am As Ar Ares (A1 & A2 & A3) Af Ae Ax].
  constructor.
  - unfold len in *. lia.
  - unfold magic_ok in *. replace (take 16 b') with (take 16 b); [exact Am|].
    unfold take. change (Z.to_nat 16) with 16%nat.
    pose proof (window_eq b b' 0%nat 16%nat) as W. cbn [skipn] in W. apply W.
    intros i Hi. apply H. apply (R 0%nat 16%nat); lia.
  - rewrite P. exact As.
  - rewrite F; [exact Ar|lia|lia|]. intros i Hi. apply (R 19%nat 20%nat); lia.
  - rewrite F; [exact Ares|lia|lia|]. intros i Hi. apply (R 20%nat 21%nat); lia.
  - rewrite (F 21 1), (F 22 1), (F 23 1); [auto|lia|lia| |lia|lia| |lia|lia|]; intros i Hi;
      [apply (R 23%nat 24%nat)|apply (R 22%nat 23%nat)|apply (R 21%nat 22%nat)]; lia.
  - rewrite F; [exact Af|lia|lia|]. intros i Hi. apply (R 44%nat 48%nat); lia.
  - rewrite F; [exact Ae|lia|lia|]. intros i Hi. apply (R 56%nat 60%nat); lia.
  - unfold expansion_zero in *. replace (take 20 (drop 72 b')) with (take 20 (drop 72 b)); [exact Ax|].
    unfold take, drop. apply window_eq. intros i Hi. apply H. apply (R 72%nat 92%nat); lia.
Qed.
