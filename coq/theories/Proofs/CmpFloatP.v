(* db/cmp.go cmpFloat64 / cmpIntFloat as translated (Gen/CmpFloat.v: the source's statements, Go's IEEE comparison operators, the
   float literals by their bit patterns) compute the model's cmp_float64 / cmp_int_float on every integer and every bit pattern. *)
From SQ Require Import Model.Base Model.Float Model.Cmp Gen.CmpFloat Proofs.CmpP Proofs.IntRealP.
From Coq Require Import ZifyBool.

Lemma go_cmpFloat64_spec a b : go_cmpFloat64 a b = cmp_float64 a b.
Proof. unfold go_cmpFloat64, cmp_float64, go_flt, go_feq. destruct (fcmp a b) as [[| |]|]; reflexivity. Qed.

Lemma fne_self r : go_fne r r = is_nan r.
Proof.
  unfold go_fne, go_feq, fcmp. destruct (is_nan r) eqn:En; cbn [orb negb]; [reflexivity|].
  destruct (is_inf r); [rewrite Bool.eqb_reflx; reflexivity|]. rewrite dy_cmp_refl. reflexivity.
Qed.

(* comparing with the float 2^63 or -2^63 is comparing with that integer *)
Lemma dy_cmp_scale_r x m e k : 0 <= k -> dy_cmp x (m * 2 ^ k, e) = dy_cmp x (m, e + k).
Proof. intros Hk. rewrite (dy_cmp_antisym (m * 2 ^ k, e) x), (dy_cmp_antisym (m, e + k) x). rewrite dy_cmp_scale by exact Hk. reflexivity. Qed.

Lemma fcmp_const r (c z : Z) m : is_nan r = false -> is_nan c = false -> is_inf c = false -> fval c = (m, 11) -> z = m * 2 ^ 11 ->
  fcmp r c = Some (f_cmp_int r z).
Proof.
  intros Hn Hc Hi Hv ->. unfold fcmp, f_cmp_int. rewrite Hn, Hc, Hi. cbn [orb].
  destruct (is_inf r); [reflexivity|]. rewrite Hv. rewrite (dy_cmp_scale_r (fval r) m 0 11) by lia. reflexivity.
Qed.

Theorem go_cmpIntFloat_spec i r : go_cmpIntFloat i r = cmp_int_float i r.
Proof.
  unfold go_cmpIntFloat, cmp_int_float. rewrite fne_self. destruct (is_nan r) eqn:En; [reflexivity|].
  unfold go_flt, go_fge.
  rewrite (fcmp_const r 14114281232179134464 (- 2 ^ 63) (- 2 ^ 52) En ltac:(vm_compute; reflexivity) ltac:(vm_compute; reflexivity) ltac:(vm_compute; reflexivity) ltac:(vm_compute; reflexivity)).
  rewrite (fcmp_const r 4890909195324358656 (2 ^ 63) (2 ^ 52) En ltac:(vm_compute; reflexivity) ltac:(vm_compute; reflexivity) ltac:(vm_compute; reflexivity) ltac:(vm_compute; reflexivity)).
  destruct (f_cmp_int r (- 2 ^ 63)); try reflexivity;
    (destruct (f_cmp_int r (2 ^ 63)); try reflexivity;
     unfold go_int64_of_float, go_float64_of_int; cbv zeta;
     destruct (i <? f_trunc r); [reflexivity|]; destruct (f_trunc r <? i); [reflexivity|]; apply go_cmpFloat64_spec).
Qed.
