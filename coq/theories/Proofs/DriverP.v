(* C19: invariants of the driver's producer / consumer transition system over
   every interleaving. *)
From Coq Require Import List Bool Arith Lia.
From SQ Require Import Model.Driver.
Import ListNotations.

Section P.
  Variable row : Type.
  Variable err : Type.
  Notation st := (st row err).
  Notation ppc := (ppc row err).
  Notation obs := (obs row err).

  (* the rows the consumer received, oldest first *)
  Fixpoint obs_rows (l : list obs) : list row :=
    match l with
    | [] => []
    | ORow r :: rest => obs_rows rest ++ [r]
    | _ :: rest => obs_rows rest
    end.

  Definition pending (p : ppc) : list row := match p with PSelect r => [r] | _ => [] end.
  Definition scanning (p : ppc) : bool := match p with PInit | PLoop | PSelect _ => true | _ => false end.
  Definition holding (p : ppc) : bool := match p with PLoop | PSelect _ => true | _ => false end.

  Variable rows : list row.
  Variable fin0 : option err.

  (* the verdict of a scan that has returned: its own end, or nil because the consumer cancelled *)
  Definition verdict_ok (s : st) (e : option err) : Prop :=
    (e = fin0 /\ obs_rows (seen s) = rows) \/ (cancelled s = true /\ e = None).

  Record Inv (s : st) : Prop := {
    i_fin : fin s = fin0;
    i_rows : if scanning (pc s) then rows = obs_rows (seen s) ++ pending (pc s) ++ left s
             else exists suf, rows = obs_rows (seen s) ++ suf;
    i_lock : locked s = holding (pc s);
    i_cells : match pc s with
              | PInit | PLoop | PSelect _ | PReturned _ => err_cell s = None /\ wg_done s = false /\ closed s = false
              | PErrSet => wg_done s = false /\ closed s = false
              | PWgDone => wg_done s = true /\ closed s = false
              | PClosed => wg_done s = true /\ closed s = true
              end;
    i_verdict : match pc s with
                | PReturned e => verdict_ok s e
                | PErrSet | PWgDone | PClosed => verdict_ok s (err_cell s)
                | _ => True
                end;
    i_eof : In (OEof) (seen s) -> closed s = true /\ err_cell s = None;
    i_err : forall e, In (OErr e) (seen s) -> closed s = true /\ err_cell s = Some e;
    i_closed : forall e, In (OClosed e) (seen s) -> wg_done s = true /\ err_cell s = e }.

  Lemma inv_init prog : Inv (init rows fin0 prog).
  Proof.
    constructor; cbn; auto; try (intros; contradiction).
  Qed.

  Ltac slv :=
    unfold verdict_ok in *; cbn in *;
    repeat match goal with
           | H : _ /\ _ |- _ => destruct H
           | H : exists _, _ |- _ => destruct H
           end;
    rewrite ?app_nil_r in *;
    try solve [ intuition (subst; auto; try congruence)
              | eexists; eassumption
              | intros; repeat match goal with
                               | H : _ \/ _ |- _ => destruct H
                               | H : @eq obs _ _ |- _ => first [discriminate H | inversion H; clear H; subst]
                               | Hq : forall e, In (OErr e) _ -> _, Hi : In (OErr _) _ |- _ => destruct (Hq _ Hi); clear Hq
                               | Hq : forall e, In (OClosed e) _ -> _, Hi : In (OClosed _) _ |- _ => destruct (Hq _ Hi); clear Hq
                               end; intuition (subst; auto; try congruence) ].

  Ltac one Hin := destruct Hin as [<-|[]]; constructor; slv.

  Lemma inv_pstep s s' : Inv s -> In s' (pstep s) -> Inv s'.
  Proof.
    intros [Hf Hr Hl Hc Hv He Hx Hcl] Hin. unfold pstep in Hin.
    destruct (pc s) eqn:Ep; cbn [scanning pending holding] in *.
    - one Hin.
    - destruct (left s) as [|r rest] eqn:El; one Hin.
      exists []. rewrite app_nil_r. assumption.
    - destruct (cancelled s) eqn:Ec; [|contradiction]. one Hin.
    - one Hin.
    - one Hin.
    - one Hin.
    - contradiction.
  Qed.

  Lemma inv_cstep s s' : Inv s -> In s' (cstep s) -> Inv s'.
  Proof.
    intros [Hf Hr Hl Hc Hv He Hx Hcl] Hin. unfold cstep in Hin.
    destruct (closing s) eqn:Ecl.
    - destruct (wg_done s) eqn:Ew; [|contradiction].
      destruct Hin as [<-|[]]. constructor; destruct (pc s) eqn:Ep; slv.
    - destruct (todo s) as [|[| |] rest] eqn:Et; [contradiction| | |].
      + destruct (pc s) eqn:Ep.
        all: try (destruct (closed s) eqn:Ecd; [|contradiction]).
        all: destruct Hin as [<-|[]]; constructor; cbn [pc observe]; rewrite ?Ep; destruct (err_cell s) eqn:Ee; slv.
        all: try (rewrite <- app_assoc; assumption).
      + destruct Hin as [<-|[]]. constructor; destruct (pc s) eqn:Ep; slv.
      + destruct Hin as [<-|[]]. constructor; destruct (pc s) eqn:Ep; slv.
  Qed.

  Theorem inv_reach prog s : reach (init rows fin0 prog) s -> Inv s.
  Proof.
    induction 1 as [|s s' _ IH Hin]; [apply inv_init|].
    unfold steps in Hin. apply in_app_or in Hin. destruct Hin; [eapply inv_pstep|eapply inv_cstep]; eauto.
  Qed.

  (* C19_prefix: what the consumer has received is a prefix of the native result, in order *)
  Theorem received_prefix prog s : reach (init rows fin0 prog) s ->
    exists suf, rows = obs_rows (seen s) ++ suf.
  Proof.
    intros H. destruct (inv_reach prog s H) as [_ Hr _ _ _ _ _ _].
    destruct (scanning (pc s)); [eexists; exact Hr|exact Hr].
  Qed.

  (* C19_err: EOF is only ever reported when the scan ended without an error (or was
     cancelled by the consumer itself); an error of the scan is what Next returns *)
  Theorem eof_means_no_error prog s : reach (init rows fin0 prog) s ->
    In (OEof) (seen s) -> fin0 = None \/ cancelled s = true.
  Proof.
    intros H Hin. destruct (inv_reach prog s H) as [_ _ _ Hc Hv He _ _].
    destruct (He Hin) as [Hcl Hn]. destruct (pc s); cbn in Hc; try (destruct Hc as (_ & _ & C); congruence); try (destruct Hc as (_ & C); congruence).
    cbn in Hv. destruct Hv as [[A B]|[A B]]; [left; congruence|right; exact A].
  Qed.

  Theorem eof_means_all_rows prog s : reach (init rows fin0 prog) s ->
    In (OEof) (seen s) -> cancelled s = false -> obs_rows (seen s) = rows.
  Proof.
    intros H Hin Hnc. destruct (inv_reach prog s H) as [_ _ _ Hc Hv He _ _].
    destruct (He Hin) as [Hcl Hn]. destruct (pc s); cbn in Hc; try (destruct Hc as (_ & _ & C); congruence); try (destruct Hc as (_ & C); congruence).
    cbn in Hv. destruct Hv as [[A B]|[A B]]; [exact B|congruence].
  Qed.

  Theorem error_is_the_scans prog s e : reach (init rows fin0 prog) s ->
    In (OErr e) (seen s) -> fin0 = Some e.
  Proof.
    intros H Hin. destruct (inv_reach prog s H) as [_ _ _ Hc Hv _ Hx _].
    destruct (Hx e Hin) as [Hcl Hn]. destruct (pc s); cbn in Hc; try (destruct Hc as (_ & _ & C); congruence); try (destruct Hc as (_ & C); congruence).
    cbn in Hv. destruct Hv as [[A B]|[A B]]; congruence.
  Qed.

  (* C19_unlock: when Close has returned the read lock is released *)
  Theorem close_returns_unlocked prog s e : reach (init rows fin0 prog) s ->
    In (OClosed e) (seen s) -> locked s = false.
  Proof.
    intros H Hin. destruct (inv_reach prog s H) as [_ _ Hl Hc _ _ _ Hcl].
    destruct (Hcl e Hin) as [Hw _]. rewrite Hl.
    destruct (pc s); cbn in *; try reflexivity; destruct Hc as (_ & B & _); congruence.
  Qed.

  (* C19_terminates: once cancelled the producer always has a step of its own until its
     channel is closed, and each of its steps brings it closer to that *)
  Theorem producer_not_stuck (s : st) : cancelled s = true -> pc s <> PClosed -> pstep s <> [].
  Proof.
    intros Hc Hp. unfold pstep. destruct (pc s); try discriminate; try congruence.
    - destruct (left s); discriminate.
    - rewrite Hc. discriminate.
  Qed.

  Definition rank (p : ppc) : nat :=
    match p with PInit => 7 | PSelect _ => 6 | PLoop => 5 | PReturned _ => 3 | PErrSet => 2 | PWgDone => 1 | PClosed => 0 end.
  Definition measure (s : st) : nat := 8 * length (left s) + rank (pc s).

  Theorem producer_progress (s s' : st) : In s' (pstep s) -> measure s' < measure s.
  Proof.
    unfold pstep, measure. destruct (pc s) eqn:Ep.
    - intros [<-|[]]. cbn. lia.
    - destruct (left s) as [|r rest]; intros [<-|[]]; cbn; lia.
    - destruct (cancelled s); [|contradiction]. intros [<-|[]]. cbn. lia.
    - intros [<-|[]]. cbn. lia.
    - intros [<-|[]]. cbn. lia.
    - intros [<-|[]]. cbn. lia.
    - contradiction.
  Qed.

  (* the consumer's steps never set the producer back: a received row moves it on too *)
  Theorem consumer_never_rewinds (s s' : st) : In s' (cstep s) -> measure s' <= measure s.
  Proof.
    unfold cstep, measure. destruct (closing s).
    - destruct (wg_done s); [|contradiction]. intros [<-|[]]. cbn. lia.
    - destruct (todo s) as [|[| |] rest]; [contradiction| | |].
      + destruct (pc s) eqn:Ep.
        all: try (destruct (closed s); [|contradiction]).
        all: intros [<-|[]]; cbn; rewrite ?Ep; cbn; lia.
      + intros [<-|[]]. cbn. lia.
      + intros [<-|[]]. cbn. lia.
  Qed.

  (* cancellation is permanent *)
  Theorem cancelled_stays (s s' : st) : In s' (steps s) -> cancelled s = true -> cancelled s' = true.
  Proof.
    unfold steps. intros Hin Hc. apply in_app_or in Hin. destruct Hin as [Hin|Hin].
    - unfold pstep in Hin. destruct (pc s); try (destruct Hin as [<-|[]]; cbn; auto; fail).
      + destruct (left s); destruct Hin as [<-|[]]; cbn; auto.
      + rewrite Hc in Hin. destruct Hin as [<-|[]]; cbn; auto.
      + contradiction.
    - unfold cstep in Hin. destruct (closing s).
      + destruct (wg_done s); [|contradiction]. destruct Hin as [<-|[]]. cbn. auto.
      + destruct (todo s) as [|[| |] rest]; [contradiction| | |].
        * destruct (pc s); try (destruct (closed s); [|contradiction]); destruct Hin as [<-|[]]; cbn; auto.
        * destruct Hin as [<-|[]]; cbn; auto.
        * destruct Hin as [<-|[]]; cbn; auto.
  Qed.

  (* executions, counting the producer's own steps *)
  Inductive path : st -> nat -> st -> Prop :=
  | path_nil : forall s, path s 0 s
  | path_p : forall s s1 s2 k, In s1 (pstep s) -> path s1 k s2 -> path s (S k) s2
  | path_c : forall s s1 s2 k, In s1 (cstep s) -> path s1 k s2 -> path s k s2.

  (* whatever the consumer does and however the two are interleaved, the producer
     takes at most 8 * (rows left) + 7 steps: it cannot spin *)
  Theorem producer_steps_bounded s k s2 : path s k s2 -> k + measure s2 <= measure s.
  Proof.
    induction 1 as [s|s s1 s2 k Hin _ IH|s s1 s2 k Hin _ IH].
    - lia.
    - apply producer_progress in Hin. lia.
    - apply consumer_never_rewinds in Hin. lia.
  Qed.

  (* left to itself after a cancel the producer runs to the end: it unlocks, publishes
     its verdict, signals the WaitGroup and closes the channel *)
  Fixpoint prun (n : nat) (s : st) : st :=
    match n with
    | O => s
    | S k => match pstep s with s1 :: _ => prun k s1 | [] => s end
    end.

  Theorem cancelled_producer_finishes n s : measure s <= n -> cancelled s = true -> pc (prun n s) = PClosed.
  Proof.
    revert s. induction n as [|n IH]; intros s Hm Hc.
    - unfold measure in Hm. cbn [prun]. destruct (pc s); cbn [rank] in Hm; try lia. reflexivity.
    - cbn [prun]. destruct (pstep s) as [|s1 rest] eqn:Ep.
      + destruct (pc s) eqn:Epc; try reflexivity; exfalso; eapply producer_not_stuck; eauto; congruence.
      + assert (Hin : In s1 (pstep s)) by (rewrite Ep; left; reflexivity).
        apply IH.
        * apply producer_progress in Hin. lia.
        * eapply cancelled_stays; [|exact Hc]. unfold steps. apply in_or_app. left. exact Hin.
  Qed.

  (* every execution is finite: each step of either side decreases this *)
  Definition total (s : st) : nat := measure s + 2 * length (todo s) + (if closing s then 1 else 0).
  Theorem every_step_decreases (s s' : st) : In s' (steps s) -> total s' < total s.
  Proof.
    unfold steps, total. intros Hin. apply in_app_or in Hin. destruct Hin as [Hin|Hin].
    - assert (Hm := producer_progress _ _ Hin).
      assert (todo s' = todo s /\ closing s' = closing s) as [-> ->]; [|lia].
      unfold pstep in Hin. destruct (pc s); try (destruct Hin as [<-|[]]; cbn; auto; fail).
      + destruct (left s); destruct Hin as [<-|[]]; cbn; auto.
      + destruct (cancelled s); [|contradiction]. destruct Hin as [<-|[]]; cbn; auto.
      + contradiction.
    - assert (Hm := consumer_never_rewinds _ _ Hin). unfold cstep in Hin. destruct (closing s).
      + destruct (wg_done s); [|contradiction]. destruct Hin as [<-|[]]. cbn in *. lia.
      + destruct (todo s) as [|[| |] rest]; [contradiction| | |].
        * destruct (pc s); try (destruct (closed s); [|contradiction]); destruct Hin as [<-|[]]; cbn in *; lia.
        * destruct Hin as [<-|[]]; cbn in *; lia.
        * destruct Hin as [<-|[]]; cbn in *; lia.
  Qed.

  (* no deadlock: an execution only ends when the consumer's program is over, and then the
     producer has either exited or is parked in its select waiting for a consumer that
     neither received nor cancelled (a result set that was never closed) *)
  Theorem terminal_states prog s : reach (init rows fin0 prog) s -> steps s = [] ->
    todo s = [] /\ closing s = false /\
    ((pc s = PClosed /\ locked s = false /\ closed s = true) \/ (exists r, pc s = PSelect r /\ cancelled s = false)).
  Proof.
    intros H Hs. destruct (inv_reach prog s H) as [_ _ Hl Hc _ _ _ _].
    unfold steps in Hs. apply app_eq_nil in Hs. destruct Hs as [Hp Hcs].
    assert (Hpc : (pc s = PClosed) \/ (exists r, pc s = PSelect r /\ cancelled s = false)).
    { unfold pstep in Hp. destruct (pc s) eqn:Ep; try discriminate; auto.
      - destruct (left s); discriminate.
      - destruct (cancelled s) eqn:Ec; [discriminate|]. right. eauto. }
    unfold cstep in Hcs.
    destruct Hpc as [Hpc|[r [Hpc Hnc]]]; rewrite Hpc in *; cbn in *.
    - destruct Hc as [Hw Hcd]. rewrite Hw, Hcd in Hcs.
      destruct (closing s); [discriminate|]. destruct (todo s) as [|[| |] rest]; try discriminate. auto 6.
    - destruct Hc as (_ & Hw & Hcd). destruct (closing s) eqn:Ecl.
      + (* inside Close: cancelled was set by the same step - unreachable, but no invariant says so; show it directly *)
        exfalso. clear Hcs. revert Ecl Hnc. clear - H.
        assert (G : closing s = true -> cancelled s = true); [|intros A B; rewrite (G A) in B; discriminate].
        induction H as [|s s' _ IH Hin]; [cbn; discriminate|].
        unfold steps in Hin. apply in_app_or in Hin. destruct Hin as [Hin|Hin].
        * unfold pstep in Hin. destruct (pc s); try (destruct Hin as [<-|[]]; cbn; auto; fail).
          -- destruct (left s); destruct Hin as [<-|[]]; cbn; auto.
          -- destruct (cancelled s) eqn:E; [|contradiction]. destruct Hin as [<-|[]]; cbn; auto.
          -- contradiction.
        * unfold cstep in Hin. destruct (closing s).
          -- destruct (wg_done s); [|contradiction]. destruct Hin as [<-|[]]. cbn. discriminate.
          -- destruct (todo s) as [|[| |] rest]; [contradiction| | |].
             ++ destruct (pc s); try (destruct (closed s); [|contradiction]); destruct Hin as [<-|[]]; cbn; discriminate.
             ++ destruct Hin as [<-|[]]; cbn; discriminate.
             ++ destruct Hin as [<-|[]]; cbn; auto.
      + destruct (todo s) as [|[| |] rest]; try discriminate. split; [reflexivity|]. split; [reflexivity|]. right. eauto.
  Qed.

  (* "leaks no goroutine and releases the file lock": if the consumer cancelled or closed
     at any point, every maximal execution ends with the producer gone and the lock dropped *)
  Theorem cancelled_runs_end_clean prog s : reach (init rows fin0 prog) s -> steps s = [] ->
    cancelled s = true -> pc s = PClosed /\ locked s = false /\ closed s = true.
  Proof.
    intros H Hs Hc. destruct (terminal_states prog s H Hs) as (_ & _ & [G|[r [_ G]]]); [exact G|congruence].
  Qed.

  (* Close only returns once the producer is past its scan *)
  Theorem close_waits prog s e : reach (init rows fin0 prog) s ->
    In (OClosed e) (seen s) -> pc s = PWgDone \/ pc s = PClosed.
  Proof.
    intros H Hin. destruct (inv_reach prog s H) as [_ _ _ Hc _ _ _ Hcl].
    destruct (Hcl e Hin) as [Hw _]. destruct (pc s); cbn in Hc; auto; destruct Hc as (_ & B & _) || destruct Hc as (B & _); congruence.
  Qed.

  (* the one cell the two goroutines share (rows.err): the consumer's next step reads it ... *)
  Definition consumer_reads_err (s : st) : bool :=
    if closing s then wg_done s
    else match todo s with
         | CNext :: _ => match pc s with PSelect _ => false | _ => closed s end
         | _ => false
         end.
  (* ... only when the producer is past its write and past the event that publishes it
     (wg.Done before Close's wg.Wait returns; close(ch) before the receive reports closed) *)
  Theorem err_read_after_write prog s : reach (init rows fin0 prog) s -> consumer_reads_err s = true ->
    (closing s = true /\ (pc s = PWgDone \/ pc s = PClosed)) \/ (closing s = false /\ pc s = PClosed).
  Proof.
    intros H Hr. destruct (inv_reach prog s H) as [_ _ _ Hc _ _ _ _]. unfold consumer_reads_err in Hr.
    destruct (closing s).
    - left. split; [reflexivity|]. destruct (pc s); cbn in Hc; auto; (destruct Hc as (_ & B & _) || destruct Hc as (B & _)); congruence.
    - right. split; [reflexivity|]. destruct (todo s) as [|[| |] rest]; try discriminate.
      destruct (pc s); cbn in Hc; try discriminate; auto; (destruct Hc as (_ & _ & B) || destruct Hc as (_ & B)); congruence.
  Qed.
End P.
