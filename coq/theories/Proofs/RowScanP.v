(* C18: the conversion table of Row.Scan, and that scanned byte slices are copies *)
From SQ Require Import Model.Base Model.Record Model.Float Model.RowScan Proofs.BaseP.
From Coq Require Import ZifyBool ZifyNat.

Section P.
  Variable format_float : Z -> list byte.
  Variable parse_float : list byte -> option Z.
  Variable parse_time : list byte -> option (Z * Z).
  Notation scan1 := (scan1 format_float parse_float parse_time).
  Notation scan_args := (scan_args format_float parse_float parse_time).

  Definition zero_of (d : dest) : scanned :=
    match d with
    | DString => SString [] | DBytes => SBytes None | DInt64 | DInt32 | DInt => SInt 0 | DBool => SBool false
    | DFloat64 => SFloat 0 | DTime => STimeZero | DSkip => SNone | DUnsupported => SErr
    end.

  (* NULL and a missing column give the destination's zero value *)
  Lemma scan_null d : scan1 d (Some VNull) = zero_of d.
  Proof. destruct d; reflexivity. Qed.
  Lemma scan_missing d : scan1 d None = zero_of d.
  Proof. destruct d; reflexivity. Qed.

  (* numbers by Go conversion *)
  Lemma scan_int_table z :
    scan1 DInt64 (Some (VInt z)) = SInt z /\ scan1 DInt (Some (VInt z)) = SInt z /\
    scan1 DInt32 (Some (VInt z)) = SInt (wrap 32 z) /\ scan1 DBool (Some (VInt z)) = SBool (negb (z =? 0)) /\
    scan1 DFloat64 (Some (VInt z)) = SFloat (f_of_int z) /\ scan1 DString (Some (VInt z)) = SString (format_int z) /\
    scan1 DTime (Some (VInt z)) = STime z 0.
  Proof. repeat split; reflexivity. Qed.

  Lemma scan_real_table f :
    scan1 DFloat64 (Some (VReal f)) = SFloat f /\ scan1 DInt64 (Some (VReal f)) = SInt (int_of_float f) /\
    scan1 DBool (Some (VReal f)) = SBool (negb (int_of_float f =? 0)) /\ scan1 DString (Some (VReal f)) = SString (format_float f) /\
    scan1 DTime (Some (VReal f)) = SErr.
  Proof. repeat split; reflexivity. Qed.

  (* text: strictly parsed - an integer text is taken exactly, anything ParseInt and
     ParseFloat both refuse is an error; text and blobs pass unchanged into strings and bytes *)
  Lemma scan_text_int s v : parse_int s = Some v -> scan1 DInt64 (Some (VText s)) = SInt v.
  Proof. intros H. cbn [RowScan.scan1 scan_int]. unfold string_to_int. rewrite H. reflexivity. Qed.
  Lemma scan_text_bad s : parse_int s = None -> parse_float s = None ->
    scan1 DInt64 (Some (VText s)) = SErr /\ scan1 DBool (Some (VText s)) = SErr /\ scan1 DFloat64 (Some (VText s)) = SErr.
  Proof. intros H1 H2. cbn [RowScan.scan1 scan_int scan_float]. unfold string_to_int. rewrite H1, H2. repeat split; reflexivity. Qed.
  Lemma scan_text_string s : scan1 DString (Some (VText s)) = SString s /\ scan1 DBytes (Some (VBlob s)) = SBytes (Some s).
  Proof. split; reflexivity. Qed.
  Lemma scan_unsupported v : scan1 DUnsupported v = SErr.
  Proof. reflexivity. Qed.

  (* the first failing destination ends the call with an error; the ones before it were filled *)
  Lemma scan_args_length ds r i : let '(xs, ok) := scan_args ds r i in (ok = true -> length xs = length ds) /\ (length xs <= length ds)%nat.
  Proof.
    revert i. induction ds as [|d ds IH]; intros i; cbn [RowScan.scan_args]; [split; auto|].
    specialize (IH (S i)). destruct (RowScan.scan_args format_float parse_float parse_time ds r (S i)) as [xs ok].
    destruct (scan1 d (nth_error r i)); cbn [length]; try (split; [intros X; destruct IH as [A _]; rewrite (A X); reflexivity|lia]).
    split; [discriminate|lia].
  Qed.
End P.

(* strconv.ParseInt round trip on the boundary values (a test inside Coq of the decimal reader / writer) *)
Example parse_format_int :
  map (fun z => parse_int (format_int z)) [0; 1; -1; 2 ^ 31; 2 ^ 53 + 1; 2 ^ 63 - 1; - 2 ^ 63]
  = map Some [0; 1; -1; 2 ^ 31; 2 ^ 53 + 1; 2 ^ 63 - 1; - 2 ^ 63].
Proof. vm_compute. reflexivity. Qed.
Example parse_int_strict :
  map (fun s => parse_int (map z2b s)) [[49; 50; 51; 116]; []; [45]; [49; 95; 48]; [32; 49]; [57; 50; 50; 51; 51; 55; 50; 48; 51; 54; 56; 53; 52; 55; 55; 53; 56; 48; 56]]
  = [None; None; None; None; None; None].
Proof. vm_compute. reflexivity. Qed.

(* ---- copies ---- *)
Lemma nth_set_nth_other {A} (d : A) : forall l i j x, i <> j -> nth j (set_nth i x l) d = nth j l d.
Proof.
  induction l as [|y l IH]; intros i j x H; [destruct i; reflexivity|].
  destruct i, j; cbn [set_nth nth]; try congruence; try reflexivity. apply IH. congruence.
Qed.

(* a scanned []byte is a new buffer holding the value's bytes; writing to it
   afterwards changes no buffer that existed before (the page cache's among them) *)
Theorem scan_bytes_is_copy (h : heap) (src : nat) (junk : list byte) :
  let '(h', id) := scan_bytes_ref h src in
  id = length h /\ nth id h' [] = nth src h [] /\
  forall j, (j < length h)%nat -> nth j (write h' id junk) [] = nth j h [].
Proof.
  unfold scan_bytes_ref, alloc, write. split; [reflexivity|]. split.
  - rewrite app_nth2 by lia. rewrite Nat.sub_diag. reflexivity.
  - intros j Hj. rewrite nth_set_nth_other by lia. rewrite app_nth1 by lia. reflexivity.
Qed.
