(* C05: on every byte string the model's decoders and traversals end in a
   value or an ordinary error - never in a Go run-time panic (EPanic: slice
   bounds, index out of range, nil dereference) and never out of fuel (EFuel:
   a loop without a bound). *)
From SQ Require Import Model.Base Model.Varint Model.Record Model.Payload Model.Btree
     Model.Page Model.Cmp Model.Low Proofs.BaseP Proofs.VarintP Proofs.PayloadP.
From Coq Require Import ZifyBool ZifyNat.

Definition np {A} (x : res A) : Prop := is_panic x = false.

Lemma np_ok {A} (a : A) : np (Ok a).
Proof. reflexivity. Qed.

Lemma np_bind {A B} (x : res A) (f : A -> res B) :
  np x -> (forall a, x = Ok a -> np (f a)) -> np (bind x f).
Proof. destruct x as [a|e]; cbn [bind]; intros Hx Hf; [apply Hf; reflexivity|exact Hx]. Qed.

Lemma slice_from_ok b i : 0 <= i <= len b -> slice_from b i = Ok (skipn (Z.to_nat i) b).
Proof. intros H. unfold slice_from. destruct (0 <=? i) eqn:A, (i <=? len b) eqn:B; cbn [andb]; try lia. reflexivity. Qed.

Lemma slice_to_ok b j : 0 <= j <= len b -> slice_to b j = Ok (firstn (Z.to_nat j) b).
Proof. intros H. unfold slice_to. destruct (0 <=? j) eqn:A, (j <=? len b) eqn:B; cbn [andb]; try lia. reflexivity. Qed.

Lemma slice_ok b i j : 0 <= i <= j -> j <= len b ->
  slice b i j = Ok (firstn (Z.to_nat (j - i)) (skipn (Z.to_nat i) b)).
Proof.
  intros H1 H2. unfold slice. destruct (0 <=? i) eqn:A, (i <=? j) eqn:B, (j <=? len b) eqn:C; cbn [andb]; try lia. reflexivity.
Qed.

Lemma len_skipn b i : 0 <= i <= len b -> len (skipn (Z.to_nat i) b) = len b - i.
Proof. intros H. unfold len in *. rewrite skipn_length. lia. Qed.

Lemma len_firstn b i : 0 <= i <= len b -> len (firstn (Z.to_nat i) b) = i.
Proof. intros H. unfold len in *. rewrite firstn_length. lia. Qed.

(* ---------- records ---------- *)
Lemma parse_value_np c body : np (parse_value c body).
Proof.
  unfold parse_value, np.
  repeat match goal with
         | |- is_panic (if ?t then _ else _) = false => destruct t eqn:?; try reflexivity
         end.
  - (* blob *) assert (H0: c >= 12) by lia.
    assert (H1: 0 <= (c - 12) / 2) by (apply Z.div_pos; lia).
    assert (H2: (c - 12) / 2 <= len body) by lia.
    rewrite (slice_to_ok _ _ (conj H1 H2)), (slice_from_ok _ _ (conj H1 H2)). reflexivity.
  - assert (H0: c >= 13) by (assert (c <> 12) by (intros ->; discriminate); lia).
    assert (H1: 0 <= (c - 13) / 2) by (apply Z.div_pos; lia).
    assert (H2: (c - 13) / 2 <= len body) by lia.
    rewrite (slice_to_ok _ _ (conj H1 H2)), (slice_from_ok _ _ (conj H1 H2)). reflexivity.
Qed.

Lemma parse_cols_np : forall fuel header body acc, (length header < fuel)%nat ->
  np (parse_cols fuel header body acc).
Proof.
  induction fuel as [|f IH]; intros header body acc Hf; [lia|].
  destruct header as [|h0 hrest]; cbn [parse_cols]; [reflexivity|].
  destruct (read_varint (h0 :: hrest)) as [[c n]|] eqn:E; [|reflexivity].
  apply read_varint_some_len in E. destruct E as [Hn Hl].
  rewrite slice_from_ok by lia. cbn [bind].
  pose proof (parse_value_np c body) as Hv.
  destruct (parse_value c body) as [[v b']|e]; cbn [bind fst snd]; [|exact Hv].
  apply IH. rewrite skipn_length. cbn [length] in *. unfold len in Hl. cbn [length] in Hl. lia.
Qed.

Theorem parse_record_np r : np (parse_record r).
Proof.
  unfold parse_record. destruct (read_varint r) as [[hsize n]|] eqn:E; [|reflexivity].
  apply read_varint_some_len in E. destruct E as [Hn Hl].
  destruct ((hsize <? n) || (len r <? hsize)) eqn:G; [reflexivity|].
  rewrite slice_ok by lia. rewrite slice_from_ok by lia. cbn [bind].
  apply parse_cols_np. lia.
Qed.

(* ---------- cells ---------- *)
Lemma rem_ge a b : 0 < b -> a <= 0 -> a <= Z.rem a b.
Proof.
  intros Hb Ha. replace a with (- (- a)) at 2 by lia. rewrite Z.rem_opp_l by lia.
  pose proof (Z.rem_le (- a) b ltac:(lia) Hb). lia.
Qed.

Lemma cell_in_page_nonneg l u x : 0 <= l -> 512 <= u -> 0 <= cell_in_page_bytes l u x.
Proof.
  intros Hl Hu. unfold cell_in_page_bytes.
  destruct (l <=? x); [lia|].
  set (M := (u - 12) * 32 / 255 - 23).
  assert (HM: 0 <= M).
  { unfold M. assert (23 <= (u - 12) * 32 / 255); [|lia]. apply Z.div_le_lower_bound; lia. }
  destruct (_ <=? x) eqn:E; [|lia].
  destruct (Z.le_gt_cases 0 (l - M)) as [Hp|Hn].
  - pose proof (Z.rem_nonneg (l - M) (u - 4) ltac:(lia) Hp). lia.
  - pose proof (rem_ge (l - M) (u - 4) ltac:(lia) ltac:(lia)). lia.
Qed.

Lemma parse_payload_np l c u x : 512 <= u -> np (parse_payload l c u x).
Proof.
  intros Hu. unfold parse_payload. destruct (l <? 0) eqn:E0; [reflexivity|].
  pose proof (cell_in_page_nonneg l u x ltac:(lia) Hu) as Hk.
  destruct (_ =? l); [destruct (len c <? l); reflexivity|].
  destruct (len c <? _ + 4) eqn:E1; [reflexivity|].
  rewrite slice_to_ok by lia. rewrite slice_ok by lia. cbn [bind].
  destruct (be _ =? 0); reflexivity.
Qed.

Lemma parse_table_leaf_np c u : 512 <= u -> np (parse_table_leaf c u).
Proof.
  intros Hu. unfold parse_table_leaf.
  destruct (read_varint c) as [[l n]|] eqn:E; [|reflexivity].
  apply read_varint_some_len in E. rewrite slice_from_ok by lia. cbn [bind].
  destruct (read_varint _) as [[rowid n2]|] eqn:E2; [|reflexivity].
  apply read_varint_some_len in E2. rewrite slice_from_ok by lia. cbn [bind].
  apply np_bind; [apply parse_payload_np; exact Hu|reflexivity].
Qed.

Lemma parse_table_interior_np c : np (parse_table_interior c).
Proof.
  unfold parse_table_interior. destruct (len c <? 4) eqn:E; [reflexivity|].
  rewrite slice_to_ok, slice_from_ok by lia. cbn [bind]. destruct (read_varint _) as [[k n]|]; reflexivity.
Qed.

Lemma parse_index_leaf_np c u : 512 <= u -> np (parse_index_leaf c u).
Proof.
  intros Hu. unfold parse_index_leaf.
  destruct (read_varint c) as [[l n]|] eqn:E; [|reflexivity].
  apply read_varint_some_len in E. rewrite slice_from_ok by lia. cbn [bind].
  apply parse_payload_np. exact Hu.
Qed.

Lemma parse_index_interior_np c u : 512 <= u -> np (parse_index_interior c u).
Proof.
  intros Hu. unfold parse_index_interior. destruct (len c <? 4) eqn:E; [reflexivity|].
  rewrite slice_to_ok by lia. cbn [bind].
  assert (Hs: slice_from c 4 = Ok (skipn (Z.to_nat 4) c)) by (apply slice_from_ok; lia).
  rewrite Hs. cbn [bind].
  destruct (read_varint _) as [[l n]|] eqn:E2; [|reflexivity].
  apply read_varint_some_len in E2. rewrite slice_from_ok by lia. cbn [bind].
  apply np_bind; [apply parse_payload_np; exact Hu|reflexivity].
Qed.

(* ---------- pages ---------- *)
Lemma cell_pointers_np : forall n pointers maxlen, (2 * n <= length pointers)%nat ->
  np (cell_pointers n pointers maxlen) /\
  (forall l, cell_pointers n pointers maxlen = Ok l -> Forall (fun s => 0 <= s <= maxlen) l).
Proof.
  induction n as [|n IH]; intros pointers maxlen H; cbn [cell_pointers].
  - split; [reflexivity|]. intros l E. inversion E. constructor.
  - destruct pointers as [|a [|b rest]]; cbn [length] in H; try lia.
    destruct (maxlen <? _) eqn:E; [split; [reflexivity|discriminate]|].
    destruct (IH rest maxlen ltac:(lia)) as [Hnp Hall].
    destruct (cell_pointers n rest maxlen) as [tl|e]; cbn [bind].
    + split; [reflexivity|]. intros l El. inversion El; subst. constructor; [|apply Hall; reflexivity].
      pose proof (b2z_range a). pose proof (b2z_range b). lia.
    + split; [exact Hnp|discriminate].
Qed.

Lemma parse_cellpointers_np n pointers maxlen : 0 <= n ->
  np (parse_cellpointers n pointers maxlen) /\
  (forall l, parse_cellpointers n pointers maxlen = Ok l -> Forall (fun s => 0 <= s <= maxlen) l).
Proof.
  intros Hn. unfold parse_cellpointers. destruct (len pointers <? n * 2) eqn:E; [split; [reflexivity|discriminate]|].
  apply cell_pointers_np. unfold len in E. lia.
Qed.

Lemma parse_cells_np {A} (f : list byte -> res A) content : (forall c, np (f c)) ->
  forall starts, Forall (fun s => 0 <= s <= len content) starts -> np (parse_cells f content starts).
Proof.
  intros Hf. induction starts as [|s rest IH]; intros Hall; cbn [parse_cells]; [reflexivity|].
  inversion Hall as [|? ? Hs Hrest]; subst.
  rewrite slice_from_ok by exact Hs. cbn [bind].
  apply np_bind; [apply Hf|]. intros x _.
  apply np_bind; [apply IH; exact Hrest|reflexivity].
Qed.

Lemma be_nonneg b : 0 <= be b.
Proof. pose proof (be_bound b). lia. Qed.

(* newBtree on a page buffer of the page size (the pager hands out exactly
   pagesize bytes; 512 is the smallest legal size) *)
Theorem parse_page_np b first u : 512 <= u -> 512 <= len b -> np (parse_page b first u).
Proof.
  intros Hu Hb. unfold parse_page, header_size.
  assert (Hhb: exists hb, (if first then slice_from b 100 else Ok b) = Ok hb /\ 412 <= len hb).
  { destruct first; [|exists b; split; [reflexivity|lia]].
    exists (skipn (Z.to_nat 100) b). split; [apply slice_from_ok; lia|]. rewrite len_skipn; lia. }
  destruct Hhb as (hb & -> & Hl). cbn [bind].
  rewrite slice_ok by lia. cbn [bind].
  unfold index. destruct ((0 <=? 0) && (0 <? len hb)) eqn:E; [|lia]. cbn [bind].
  set (cells := be _). assert (Hc: 0 <= cells) by apply be_nonneg.
  destruct (_ =? 13).
  { rewrite slice_from_ok by lia. cbn [bind].
    destruct (parse_cellpointers_np cells (skipn (Z.to_nat 8) hb) (len b) Hc) as [Hnp Hall].
    destruct (parse_cellpointers _ _ _) as [starts|e]; cbn [bind]; [|exact Hnp].
    apply np_bind; [|reflexivity]. apply parse_cells_np; [intros c; apply parse_table_leaf_np; exact Hu|apply Hall; reflexivity]. }
  destruct (_ =? 5).
  { rewrite slice_ok by lia. rewrite slice_from_ok by lia. cbn [bind].
    destruct (parse_cellpointers_np cells (skipn (Z.to_nat 12) hb) (len b) Hc) as [Hnp Hall].
    destruct (parse_cellpointers _ _ _) as [starts|e]; cbn [bind]; [|exact Hnp].
    apply np_bind; [|reflexivity]. apply parse_cells_np; [intros c; apply parse_table_interior_np|apply Hall; reflexivity]. }
  destruct (_ =? 10).
  { rewrite slice_from_ok by lia. cbn [bind].
    destruct (parse_cellpointers_np cells (skipn (Z.to_nat 8) b) (len b) Hc) as [Hnp Hall].
    destruct (parse_cellpointers _ _ _) as [starts|e]; cbn [bind]; [|exact Hnp].
    apply np_bind; [|reflexivity]. apply parse_cells_np; [intros c; apply parse_index_leaf_np; exact Hu|apply Hall; reflexivity]. }
  destruct (_ =? 2); [|reflexivity].
  rewrite slice_ok by lia. rewrite slice_from_ok by lia. cbn [bind].
  destruct (parse_cellpointers_np cells (skipn (Z.to_nat 12) b) (len b) Hc) as [Hnp Hall].
  destruct (parse_cellpointers _ _ _) as [starts|e]; cbn [bind]; [|exact Hnp].
  apply np_bind; [|reflexivity]. apply parse_cells_np; [intros c; apply parse_index_interior_np; exact Hu|apply Hall; reflexivity].
Qed.

(* ---------- the pager contract and Database.openPage ---------- *)
Section Pager.
  Variable pg : Z -> res (list byte).
  Variable U : Z.
  (* the pager returns exactly one page of the header's page size, or an
     ordinary error *)
  Hypothesis HU : 512 <= U.
  Hypothesis Hpg_len : forall n buf, pg n = Ok buf -> len buf = U.
  Hypothesis Hpg_np : forall n, np (pg n).

  Lemma db_page_np n : np (db_page pg n).
  Proof. unfold db_page. destruct (n <? 1); [reflexivity|apply Hpg_np]. Qed.

  Theorem openp_np n : np (openp pg U n).
  Proof.
    unfold openp. apply np_bind; [apply db_page_np|]. intros b Hb.
    apply parse_page_np; [exact HU|].
    unfold db_page in Hb. destruct (n <? 1); [discriminate|]. rewrite (Hpg_len _ _ Hb). exact HU.
  Qed.

  (* addOverflow: bounded by the number of distinct readable pages *)
  Lemma ovf_walk_not_panic : forall fuel seen to plen ovf, 0 <= plen ->
    ovf_walk pg fuel seen to plen ovf <> Err EPanic.
  Proof.
    induction fuel as [|f IH]; intros seen to plen ovf Hp; cbn [ovf_walk].
    - destruct (ovf =? 0); [destruct (len to <? plen) eqn:E; [discriminate|rewrite slice_to_ok by lia; discriminate]|].
      destruct (plen <=? len to); [discriminate|]. destruct (existsb _ _); discriminate.
    - destruct (ovf =? 0); [destruct (len to <? plen) eqn:E; [discriminate|rewrite slice_to_ok by lia; discriminate]|].
      destruct (plen <=? len to); [discriminate|]. destruct (existsb _ _); [discriminate|].
      pose proof (db_page_np ovf) as Hd.
      destruct (db_page pg ovf) as [buf|e] eqn:Eb; cbn [bind].
      + assert (len buf = U).
        { unfold db_page in Eb. destruct (ovf <? 1); [discriminate|]. eapply Hpg_len; eauto. }
        rewrite slice_to_ok, slice_from_ok by lia. cbn [bind]. apply IH. exact Hp.
      + intros X. inversion X; subst. discriminate Hd.
  Qed.

  Theorem add_overflow_np ps npages pl :
    NoDup ps -> readable pg ps -> (length ps <= npages)%nat -> 0 <= pl_len pl ->
    np (add_overflow pg npages pl).
  Proof.
    intros Hnd Hr Hn Hp. unfold np, add_overflow.
    destruct (ovf_walk pg (S npages) [] (pl_local pl) (pl_len pl) (pl_ovf pl)) as [x|e] eqn:E; [reflexivity|].
    destruct e; try reflexivity; exfalso.
    - exact (ovf_walk_not_panic _ _ _ _ _ Hp E).
    - assert (Hnf: forall p, pg p <> Err EFuel) by (intros p X; pose proof (Hpg_np p) as Y; rewrite X in Y; discriminate Y).
      refine (ovf_walk_no_fuel pg ps Hnd Hr Hnf (S npages) [] _ _ _ _ _ _ E); [constructor|intros x []|cbn [length]; lia].
  Qed.
End Pager.

(* ---------- traversals ---------- *)
Definition fl_ok {S} (x : flow * S) : Prop :=
  match fst x with Fail EPanic | Fail EFuel => False | _ => True end.

Section Trav.
  Variable P : Type.
  Variable R : Type.
  Variable openp : Z -> res (gpage P).
  Variable load : P -> res R.
  (* an invariant of the payloads found in parsed pages (for the real pages:
     the payload length is not negative) *)
  Variable okP : P -> Prop.
  Definition gpage_ok (p : gpage P) : Prop :=
    match p with
    | GTLeaf cells => Forall (fun c => okP (snd c)) cells
    | GTInterior _ _ => True
    | GILeaf cells => Forall okP cells
    | GIInterior cells _ => Forall (fun c => okP (snd c)) cells
    end.
  Hypothesis Hopen : forall n, np (openp n).
  Hypothesis Hopen_ok : forall n p, openp n = Ok p -> gpage_ok p.
  Hypothesis Hload : forall pl, okP pl -> np (load pl).
  Variable S : Type.

  Lemma fl_andthen (x : flow * S) k : fl_ok x -> (forall s, fl_ok (k s)) -> fl_ok (andthen S x k).
  Proof. destruct x as [[| |e] s]; cbn; auto. Qed.

  Lemma open_table_np n : np (open_table P openp n).
  Proof.
    unfold open_table. apply np_bind; [apply Hopen|]. intros p _. destruct p; reflexivity.
  Qed.
  Lemma open_index_np n : np (open_index P openp n).
  Proof.
    unfold open_index. apply np_bind; [apply Hopen|]. intros p _. destruct p; reflexivity.
  Qed.
  Lemma open_table_ok n p : open_table P openp n = Ok p -> gpage_ok p.
  Proof.
    unfold open_table. destruct (openp n) as [q|e] eqn:E; cbn [bind]; [|discriminate].
    destruct q; intros H; inversion H; subst; eapply Hopen_ok; eauto.
  Qed.
  Lemma open_index_ok n p : open_index P openp n = Ok p -> gpage_ok p.
  Proof.
    unfold open_index. destruct (openp n) as [q|e] eqn:E; cbn [bind]; [|discriminate].
    destruct q; intros H; inversion H; subst; eapply Hopen_ok; eauto.
  Qed.

  Lemma with_page_ok (o : res (gpage P)) s k : np o -> (forall p, o = Ok p -> fl_ok (k p)) -> fl_ok (with_page P S o s k).
  Proof.
    unfold with_page. destruct o as [p|e]; intros Ho Hk; [apply Hk; reflexivity|].
    unfold fl_ok. cbn. destruct e; try exact I; discriminate Ho.
  Qed.

  Variable tcb : Z -> P -> S -> flow * S.
  Hypothesis Htcb : forall k pl s, okP pl -> fl_ok (tcb k pl s).

  Lemma tleaf_iter_ok cells : Forall (fun c => okP (snd c)) cells -> forall s, fl_ok (tleaf_iter P S tcb cells s).
  Proof.
    induction 1 as [|[k pl] cells Hc _ IH]; intros s; cbn [tleaf_iter]; [exact I|].
    apply fl_andthen; [apply Htcb; exact Hc|apply IH].
  Qed.

  Lemma tinterior_iter_ok sub cells rgt : (forall p s, fl_ok (sub p s)) ->
    forall s, fl_ok (tinterior_iter S sub cells rgt s).
  Proof.
    intros Hs. induction cells as [|[l k] cells IH]; intros s; cbn [tinterior_iter]; [apply Hs|].
    apply fl_andthen; [apply Hs|apply IH].
  Qed.

  Theorem titer_ok : forall r pg s, gpage_ok pg -> fl_ok (titer P openp S tcb r pg s).
  Proof.
    induction r as [|r IH]; intros pg s Hp; destruct pg; cbn [titer]; try exact I; try (apply tleaf_iter_ok; exact Hp).
    apply tinterior_iter_ok. intros p s0. apply with_page_ok; [apply open_table_np|].
    intros page Ho. apply IH. eapply open_table_ok; eauto.
  Qed.

  Theorem titer_min_ok rowid : forall r pg s, gpage_ok pg -> fl_ok (titer_min P openp S tcb r pg rowid s).
  Proof.
    assert (Hleaf: forall cells s, Forall (fun c => okP (snd c)) cells -> fl_ok (tleaf_iter_min P S tcb cells rowid s)).
    { intros cells s Hc. unfold tleaf_iter_min.
      destruct (skipn _ cells) as [|[k pl] rest] eqn:E; [exact I|]. apply Htcb.
      match type of E with skipn ?n _ = _ =>
        assert (Hin: In (k, pl) cells) by (rewrite <- (firstn_skipn n cells); apply in_or_app; right; rewrite E; left; reflexivity) end.
      rewrite Forall_forall in Hc. exact (Hc _ Hin). }
    induction r as [|r IH]; intros pg s Hp; destruct pg; cbn [titer_min]; try exact I; try (apply Hleaf; exact Hp).
    unfold tinterior_iter_min. apply tinterior_iter_ok. intros p s0.
    apply with_page_ok; [apply open_table_np|]. intros page Ho. apply IH. eapply open_table_ok; eauto.
  Qed.

  Variable icb : R -> S -> flow * S.
  Hypothesis Hicb : forall r s, fl_ok (icb r s).

  Lemma emit_ok pl s : okP pl -> fl_ok (emit P R load S icb pl s).
  Proof.
    intros Hk. unfold emit. pose proof (Hload pl Hk) as H. destruct (load pl) as [rec|e]; [apply Hicb|].
    unfold fl_ok. cbn. destruct e; try exact I; discriminate H.
  Qed.

  Lemma ileaf_iter_ok cells : Forall okP cells -> forall s, fl_ok (ileaf_iter P R load S icb cells s).
  Proof.
    induction 1 as [|pl cells Hc _ IH]; intros s; cbn [ileaf_iter]; [exact I|].
    apply fl_andthen; [apply emit_ok; exact Hc|apply IH].
  Qed.

  Lemma iinterior_iter_ok sub cells rgt : (forall p s, fl_ok (sub p s)) -> Forall (fun c => okP (snd c)) cells ->
    forall s, fl_ok (iinterior_iter P R load S icb sub cells rgt s).
  Proof.
    intros Hs. induction 1 as [|[l pl] cells Hc _ IH]; intros s; cbn [iinterior_iter]; [apply Hs|].
    apply fl_andthen; [apply Hs|]. intros s'. apply fl_andthen; [apply emit_ok; exact Hc|apply IH].
  Qed.

  Theorem iiter_ok : forall r pg s, gpage_ok pg -> fl_ok (iiter P R openp load S icb r pg s).
  Proof.
    induction r as [|r IH]; intros pg s Hp; destruct pg; cbn [iiter]; try exact I; try (apply ileaf_iter_ok; exact Hp).
    apply iinterior_iter_ok; [|exact Hp]. intros p s0. apply with_page_ok; [apply open_index_np|].
    intros page Ho. apply IH. eapply open_index_ok; eauto.
  Qed.

  (* the bisection remembers an error of a probe: never a panic *)
  Variable pred : R -> bool.
  Definition err_ok (e : option err) : Prop := match e with Some EPanic | Some EFuel => False | _ => True end.

  Lemma search_e_ok (f : nat -> res bool) : (forall i, np (f i)) ->
    forall fuel i j e, err_ok e -> err_ok (snd (search_fuel_e fuel f i j e)).
  Proof.
    intros Hf. induction fuel as [|k IH]; intros i j e He; cbn [search_fuel_e]; [exact He|].
    destruct (Nat.ltb i j); [|exact He].
    pose proof (Hf (Nat.div (i + j) 2)) as Hp.
    destruct (f (Nat.div (i + j) 2)) as [[|]|x]; try (apply IH; exact He).
    apply IH. unfold merge_err. destruct e as [e0|].
    - destruct (sticky e0) eqn:Es; [exact He|]. destruct x; try exact I; discriminate Hp.
    - destruct x; try exact I; discriminate Hp.
  Qed.

  Lemma bin_search_np pl : okP pl -> np (bin_search P R load pred pl).
  Proof. intros Hk. unfold bin_search. apply np_bind; [apply Hload; exact Hk|reflexivity]. Qed.

  Lemma nth_error_forall {A} (Q : A -> Prop) l i x : Forall Q l -> nth_error l i = Some x -> Q x.
  Proof. intros H E. rewrite Forall_forall in H. apply H. eapply nth_error_In; eauto. Qed.

  Lemma forall_skipn {A} (Q : A -> Prop) n l : Forall Q l -> Forall Q (skipn n l).
  Proof.
    intros H. rewrite Forall_forall in *. intros x Hx. apply H.
    rewrite <- (firstn_skipn n l). apply in_or_app. right. exact Hx.
  Qed.

  Theorem iiter_min_ok : forall r pg s, gpage_ok pg -> fl_ok (iiter_min P R openp load S icb pred r pg s).
  Proof.
    assert (Hleaf: forall cells s, Forall okP cells -> fl_ok (ileaf_iter_min P R load S icb pred cells s)).
    { intros cells s Hc. unfold ileaf_iter_min, sort_search_e.
      pose proof (search_e_ok (fun i => match nth_error cells i with Some pl => bin_search P R load pred pl | None => Ok true end)
                              ltac:(intros i; cbv beta; destruct (nth_error cells i) eqn:En;
                                    [apply bin_search_np; eapply nth_error_forall; eauto|reflexivity])
                              (length cells) 0%nat (length cells) None I) as H.
      destruct (search_fuel_e _ _ _ _ _) as [n e]. cbn [snd] in H.
      destruct e as [x|]; [|apply ileaf_iter_ok; apply forall_skipn; exact Hc]. unfold fl_ok. cbn. destruct x; try exact I; exact H. }
    induction r as [|r IH]; intros pg s Hp; destruct pg; cbn [iiter_min]; try exact I; try (apply Hleaf; exact Hp).
    cbn [gpage_ok] in Hp.
    unfold iinterior_iter_min, sort_search_e.
    pose proof (search_e_ok (fun i => match nth_error cells i with Some (_, pl) => bin_search P R load pred pl | None => Ok true end)
                            ltac:(intros i; cbv beta; destruct (nth_error cells i) as [[? ?]|] eqn:En;
                                  [apply bin_search_np; apply (nth_error_forall (fun c => okP (snd c)) _ _ _ Hp En)|reflexivity])
                            (length cells) 0%nat (length cells) None I) as H.
    destruct (search_fuel_e _ _ _ _ _) as [n e]. cbn [snd] in H.
    destruct e as [x|]; [unfold fl_ok; cbn; destruct x; try exact I; exact H|].
    assert (Hmin: forall p s0, fl_ok (with_page P S (open_index P openp p) s0 (fun page => iiter_min P R openp load S icb pred r page s0))).
    { intros p s0; apply with_page_ok; [apply open_index_np|]. intros page Ho. apply IH. eapply open_index_ok; eauto. }
    assert (Hit: forall p s0, fl_ok (with_page P S (open_index P openp p) s0 (fun page => iiter P R openp load S icb r page s0))).
    { intros p s0; apply with_page_ok; [apply open_index_np|]. intros page Ho. apply iiter_ok. eapply open_index_ok; eauto. }
    pose proof (forall_skipn _ n _ Hp) as Hsk.
    destruct (skipn n cells) as [|[lft pl] rest]; [apply Hmin|].
    inversion Hsk as [|? ? Hpl Hrest]; subst.
    apply fl_andthen; [apply Hmin|]. intros s'. apply fl_andthen; [apply emit_ok; exact Hpl|].
    apply iinterior_iter_ok; [exact Hit|exact Hrest].
  Qed.
End Trav.
