(* local-payload formula and overflow chain walk *)
From SQ Require Import Model.Base Model.Varint Model.Payload Proofs.BaseP.
From Coq Require Import ZifyBool ZifyNat.
Ltac Zify.zify_post_hook ::= Z.div_mod_to_equations.

(* fileformat2.html, "1.6 B-tree pages", the overflow rule, literally *)
Definition s_M (u : Z) : Z := ((u - 12) * 32 / 255) - 23.
Definition s_K (u p : Z) : Z := s_M u + ((p - s_M u) mod (u - 4)).
Definition s_local (p u x : Z) : Z :=
  if p <=? x then p else if s_K u p <=? x then s_K u p else s_M u.

Definition legal_u (u : Z) : Prop := 512 <= u <= 65536.
Definition legal_x (u x : Z) : Prop := x = table_max_local u \/ x = index_max_local u.

Lemma M_le_X u x : legal_u u -> legal_x u x -> 0 < s_M u <= x /\ x < u - 4.
Proof.
  unfold legal_u, legal_x, s_M, table_max_local, index_max_local. intros Hu [->| ->]; lia.
Qed.

Theorem cell_in_page_spec p u x : legal_u u -> legal_x u x -> 0 <= p ->
  cell_in_page_bytes p u x = s_local p u x.
Proof.
  intros Hu Hx Hp. pose proof (M_le_X u x Hu Hx) as HM.
  unfold cell_in_page_bytes, s_local, s_K. fold (s_M u).
  destruct (p <=? x) eqn:E; [reflexivity|].
  rewrite Z.rem_mod_nonneg by lia. reflexivity.
Qed.

Theorem local_all_iff p u x : legal_u u -> legal_x u x -> 0 <= p ->
  (cell_in_page_bytes p u x = p <-> p <= x).
Proof.
  intros Hu Hx Hp. rewrite cell_in_page_spec by assumption.
  pose proof (M_le_X u x Hu Hx) as HM. unfold s_local, s_K.
  destruct (p <=? x) eqn:E; [lia|].
  destruct (s_M u + (p - s_M u) mod (u - 4) <=? x) eqn:E2; lia.
Qed.

Theorem local_bounds p u x : legal_u u -> legal_x u x -> x < p ->
  s_M u <= cell_in_page_bytes p u x <= x /\ cell_in_page_bytes p u x < p.
Proof.
  intros Hu Hx Hp. pose proof (M_le_X u x Hu Hx) as HM.
  rewrite cell_in_page_spec by (assumption || lia). unfold s_local, s_K.
  destruct (p <=? x) eqn:E; [lia|].
  assert (0 <= (p - s_M u) mod (u - 4) < u - 4) by (apply Z.mod_pos_bound; lia).
  destruct (s_M u + (p - s_M u) mod (u - 4) <=? x) eqn:E2; lia.
Qed.

(* when the K rule applies the spilled part fills whole overflow pages *)
Theorem local_K_fills p u x : legal_u u -> legal_x u x -> x < p ->
  cell_in_page_bytes p u x <> s_M u \/ s_K u p = s_M u ->
  (p - cell_in_page_bytes p u x) mod (u - 4) = 0.
Proof.
  intros Hu Hx Hp Hk. pose proof (M_le_X u x Hu Hx) as HM.
  rewrite cell_in_page_spec in * by (assumption || lia). unfold s_local, s_K in *.
  destruct (p <=? x) eqn:E; [lia|].
  destruct (s_M u + (p - s_M u) mod (u - 4) <=? x) eqn:E2.
  - replace (p - (s_M u + (p - s_M u) mod (u - 4))) with ((p - s_M u) - (p - s_M u) mod (u - 4)) by lia.
    rewrite Zminus_mod_idemp_r. rewrite Z.sub_diag. apply Z.mod_0_l. lia.
  - destruct Hk as [Hk|Hk]; [congruence|].
    assert ((p - s_M u) mod (u - 4) = 0) by lia. assumption.
Qed.

(* ---- parsePayload ---- *)
Lemma parse_payload_local l c u x :
  legal_u u -> legal_x u x -> 0 <= l <= x -> l <= len c ->
  parse_payload l c u x = Ok {| pl_len := l; pl_local := c; pl_ovf := 0 |}.
Proof.
  intros Hu Hx Hl Hc. unfold parse_payload.
  destruct (l <? 0) eqn:E0; [lia|].
  assert (E: cell_in_page_bytes l u x = l) by (apply (proj2 (local_all_iff l u x Hu Hx ltac:(lia))); lia).
  rewrite E, Z.eqb_refl. destruct (len c <? l) eqn:E1; [lia|]. reflexivity.
Qed.

Lemma be_enc4_take (ptr : list byte) tail : len ptr = 4 -> take 4 (ptr ++ tail) = ptr.
Proof. intros H. rewrite <- H. apply take_app. Qed.

Lemma parse_payload_spill l loc ptr tail u x :
  legal_u u -> legal_x u x -> x < l ->
  len loc = cell_in_page_bytes l u x -> len ptr = 4 -> be ptr <> 0 ->
  parse_payload l (loc ++ ptr ++ tail) u x = Ok {| pl_len := l; pl_local := loc; pl_ovf := be ptr |}.
Proof.
  intros Hu Hx Hl Hloc Hptr Hnz. unfold parse_payload.
  pose proof (M_le_X u x Hu Hx) as HMX.
  destruct (l <? 0) eqn:E0; [lia|].
  pose proof (local_bounds l u x Hu Hx Hl) as [Hb1 Hb2].
  destruct (cell_in_page_bytes l u x =? l) eqn:E1; [lia|].
  rewrite !len_app. pose proof (len_nonneg tail).
  destruct (len loc + (len ptr + len tail) <? cell_in_page_bytes l u x + 4) eqn:E2; [lia|].
  rewrite <- Hloc. rewrite slice_to_app. cbn [bind].
  assert (Hs: slice (loc ++ ptr ++ tail) (len loc) (len loc + 4) = Ok ptr).
  { unfold slice. rewrite !len_app. pose proof (len_nonneg loc).
    destruct (0 <=? len loc) eqn:?; [|lia]. destruct (len loc <=? len loc + 4) eqn:?; [|lia].
    destruct (len loc + 4 <=? len loc + (len ptr + len tail)) eqn:?; [|lia]. cbn [andb]. f_equal.
    change (skipn (Z.to_nat (len loc))) with (drop (len loc)). rewrite drop_app.
    replace (len loc + 4 - len loc) with 4 by lia. change (firstn (Z.to_nat 4)) with (take 4).
    apply be_enc4_take. exact Hptr. }
  rewrite Hs. cbn [bind].
  destruct (be ptr =? 0) eqn:E3; [lia|]. reflexivity.
Qed.

(* ---- addOverflow ---- *)
Section Walk.
  Variable pg : Z -> res (list byte).

  (* a chain: (page number, page bytes) in link order *)
  Definition chain := list (Z * list byte).

  Fixpoint linked (c : chain) : Prop :=
    match c with
    | [] => True
    | (p, buf) :: rest =>
      1 <= p /\ pg p = Ok buf /\ 4 <= len buf /\
      be (take 4 buf) = match rest with [] => 0 | (q, _) :: _ => q end /\
      linked rest
    end.

  Definition first_page (c : chain) : Z := match c with [] => 0 | (p, _) :: _ => p end.
  Definition chain_content (c : chain) : list byte := flat_map (fun e => drop 4 (snd e)) c.

  (* every page of the chain is needed: before reading it the payload is incomplete *)
  Fixpoint needed (plen : Z) (to : list byte) (c : chain) : Prop :=
    match c with
    | [] => plen <= len to
    | (_, buf) :: rest => len to < plen /\ needed plen (to ++ drop 4 buf) rest
    end.

  Lemma slice_to_4 buf : 4 <= len buf -> slice_to buf 4 = Ok (take 4 buf).
  Proof. intros H. unfold slice_to. destruct (0 <=? 4) eqn:?; [|lia]. destruct (4 <=? len buf) eqn:?; [|lia]. reflexivity. Qed.
  Lemma slice_from_4 buf : 4 <= len buf -> slice_from buf 4 = Ok (drop 4 buf).
  Proof. intros H. unfold slice_from. destruct (0 <=? 4) eqn:?; [|lia]. destruct (4 <=? len buf) eqn:?; [|lia]. reflexivity. Qed.

  Lemma existsb_notin x l : ~ In x l -> existsb (Z.eqb x) l = false.
  Proof.
    induction l as [|y l IH]; intros H; cbn [existsb]; [reflexivity|].
    destruct (x =? y) eqn:E; [exfalso; apply H; left; lia|]. cbn [orb]. apply IH. intros Hin. apply H. right. exact Hin.
  Qed.

  Theorem ovf_walk_chain c : forall fuel seen to plen,
    linked c -> NoDup (map fst c) -> (forall p, In p (map fst c) -> ~ In p seen) ->
    needed plen to c -> (length c <= fuel)%nat ->
    ovf_walk pg fuel seen to plen (first_page c) = slice_to (to ++ chain_content c) plen.
  Proof.
    induction c as [|[p buf] rest IH]; intros fuel seen to plen Hl Hnd Hseen Hneed Hfuel.
    - cbn [first_page chain_content flat_map needed] in *. rewrite app_nil_r.
      destruct fuel; cbn [ovf_walk]; rewrite Z.eqb_refl;
        (destruct (len to <? plen) eqn:E; [lia|reflexivity]).
    - cbn [linked] in Hl. destruct Hl as (Hp & Hpg & Hlen & Hnext & Hl).
      cbn [needed] in Hneed. destruct Hneed as [Hto Hneed].
      cbn [first_page]. destruct fuel as [|f]; [cbn [length] in Hfuel; lia|].
      cbn [ovf_walk].
      destruct (p =? 0) eqn:E0; [lia|].
      destruct (plen <=? len to) eqn:E1; [lia|].
      rewrite existsb_notin by (apply Hseen; left; reflexivity).
      unfold db_page. destruct (p <? 1) eqn:E2; [lia|]. rewrite Hpg. cbn [bind].
      rewrite slice_to_4, slice_from_4 by exact Hlen. cbn [bind].
      rewrite Hnext.
      cbn [map] in Hnd. inversion Hnd as [|? ? Hnotin Hnd']; subst.
      change (match rest with [] => 0 | (q, _) :: _ => q end) with (first_page rest).
      rewrite IH; try assumption.
      + cbn [chain_content flat_map snd]. rewrite <- app_assoc. reflexivity.
      + intros q Hq [Hq1|Hq2].
        * subst q. exact (Hnotin Hq).
        * exact (Hseen q (or_intror Hq) Hq2).
      + cbn [length] in Hfuel. lia.
  Qed.

  Corollary add_overflow_chain npages pl c :
    linked c -> NoDup (map fst c) -> needed (pl_len pl) (pl_local pl) c ->
    pl_ovf pl = first_page c -> (length c <= S npages)%nat ->
    add_overflow pg npages pl = slice_to (pl_local pl ++ chain_content c) (pl_len pl).
  Proof.
    intros Hl Hnd Hneed Hovf Hf. unfold add_overflow. rewrite Hovf.
    apply ovf_walk_chain; try assumption. intros p _ [].
  Qed.

  (* work bound: whatever the file contains, the walk reads at most one page
     per unit of fuel and never reports out-of-fuel when the fuel exceeds the
     number of distinct readable pages *)
  Definition readable (ps : list Z) : Prop := forall p buf, pg p = Ok buf -> In p ps.

  Lemma ovf_walk_no_fuel ps : NoDup ps -> readable ps -> (forall p, pg p <> Err EFuel) ->
    forall fuel seen to plen ovf, NoDup seen -> incl seen ps ->
    (length ps < length seen + fuel)%nat ->
    ovf_walk pg fuel seen to plen ovf <> Err EFuel.
  Proof.
    intros Hnd Hr Hnf. induction fuel as [|f IH]; intros seen to plen ovf Hs Hi Hf.
    - (* no fuel left: every readable page has been seen *)
      cbn [ovf_walk].
      destruct (ovf =? 0); [destruct (len to <? plen); [discriminate|]; unfold slice_to; destruct (_ && _); discriminate|].
      destruct (plen <=? len to); [discriminate|].
      destruct (existsb (Z.eqb ovf) seen) eqn:E; [discriminate|].
      exfalso. pose proof (NoDup_incl_length Hs Hi). lia.
    - cbn [ovf_walk].
      destruct (ovf =? 0); [destruct (len to <? plen); [discriminate|]; unfold slice_to; destruct (_ && _); discriminate|].
      destruct (plen <=? len to); [discriminate|].
      destruct (existsb (Z.eqb ovf) seen) eqn:E; [discriminate|].
      unfold db_page. destruct (ovf <? 1); [cbn; discriminate|].
      destruct (pg ovf) as [buf|e] eqn:Epg;
        [|cbn [bind]; intros H; inversion H; subst; exact (Hnf ovf Epg)].
      cbn [bind]. unfold slice_to at 1. destruct (_ && _); [|cbn; discriminate]. cbn [bind].
      unfold slice_from. destruct (_ && _); [|cbn; discriminate]. cbn [bind].
      apply IH.
      + constructor; [|exact Hs]. intros Hin.
        assert (existsb (Z.eqb ovf) seen = true) by (apply existsb_exists; exists ovf; split; [exact Hin|lia]).
        congruence.
      + intros q [<-|Hq]; [eapply Hr; eauto|apply Hi; exact Hq].
      + cbn [length]. lia.
  Qed.

  (* with fuel = 1 + number of readable pages addOverflow never diverges *)
  Corollary add_overflow_terminates ps pl :
    NoDup ps -> readable ps -> (forall p, pg p <> Err EFuel) ->
    add_overflow pg (length ps) pl <> Err EFuel.
  Proof.
    intros Hnd Hr Hnf. unfold add_overflow.
    apply (ovf_walk_no_fuel ps Hnd Hr Hnf); [constructor|intros x []|cbn [length]; lia].
  Qed.
End Walk.
