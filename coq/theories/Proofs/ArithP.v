(* The model's local-payload arithmetic is what the source says: Gen/Arith.v is
   translated from db/btree.go on every build; for every page size from 12 up
   (every legal one) and every payload length and threshold the translated Go
   arithmetic and Model/Payload.v agree. *)
From Coq Require Import ZArith Lia Bool.
From SQ Require Import Model.Base Model.Payload Gen.Arith.
Open Scope Z_scope.

Lemma quot_div_nonneg a b : 0 <= a -> 0 < b -> Z.quot a b = a / b.
Proof. intros Ha Hb. apply Z.quot_div_nonneg; lia. Qed.

Theorem go_cell_in_page_bytes l u x : 12 <= u -> go_calculateCellInPageBytes l u x = cell_in_page_bytes l u x.
Proof.
  intros Hu. unfold go_calculateCellInPageBytes, cell_in_page_bytes.
  rewrite (quot_div_nonneg ((u - 12) * 32) 255) by lia. reflexivity.
Qed.

Theorem go_table_max_local u : go_max_local_parseTableLeaf u = table_max_local u.
Proof. reflexivity. Qed.

Theorem go_index_max_local u : 12 <= u ->
  go_max_local_parseIndexLeaf u = index_max_local u /\ go_max_local_parseIndexInterior u = index_max_local u.
Proof.
  intros Hu. unfold go_max_local_parseIndexLeaf, go_max_local_parseIndexInterior, index_max_local.
  rewrite (quot_div_nonneg ((u - 12) * 64) 255) by lia. split; reflexivity.
Qed.
