(* The model's local-payload arithmetic is what the source says: Gen/Arith.v is
   translated from db/btree.go on every build; for every page size from 12 up
   (every legal one) and every payload length and threshold the translated Go
   arithmetic and Model/Payload.v agree. *)
From Coq Require Import ZArith Lia Bool.
From Coq Require Import List.
From SQ Require Import Model.Base Model.Payload Model.Varint Gen.Arith Proofs.BaseP.
Open Scope Z_scope.

Lemma quot_div_nonneg a b : 0 <= a -> 0 < b -> Z.quot a b = a / b.
Proof. intros Ha Hb. apply Z.quot_div_nonneg; lia. Qed.

Theorem go_cell_in_page_bytes l u x : 12 <= u -> go_calculateCellInPageBytes l u x = cell_in_page_bytes l u x.
Proof.
  intros Hu. unfold go_calculateCellInPageBytes, cell_in_page_bytes.
  rewrite (quot_div_nonneg ((u - 12) * 32) 255) by lia. reflexivity.
Qed.

Theorem go_table_max_local u : go_max_local_parseTableLeaf u = table_max_local u.
Proof. reflexivity. Qed.

Theorem go_index_max_local u : 12 <= u ->
  go_max_local_parseIndexLeaf u = index_max_local u /\ go_max_local_parseIndexInterior u = index_max_local u.
Proof.
  intros Hu. unfold go_max_local_parseIndexLeaf, go_max_local_parseIndexInterior, index_max_local.
  rewrite (quot_div_nonneg ((u - 12) * 64) 255) by lia. split; reflexivity.
Qed.

(* db/bits.go readTwos24 / readTwos48 as translated (shifts, | and the sign test by &) are the
   model's two's complement readers on every 3 / 6 byte string *)
Lemma lor_shiftl_add a b k : 0 <= k -> 0 <= a -> 0 <= b < 2 ^ k -> Z.lor (Z.shiftl a k) b = a * 2 ^ k + b.
Proof.
  intros Hk Ha Hb. rewrite <- Z.shiftl_mul_pow2 by exact Hk.
  assert (H0 : Z.land (Z.shiftl a k) b = 0); [|rewrite Z.add_nocarry_lxor by exact H0; symmetry; apply Z.lxor_lor; exact H0]. apply Z.bits_inj'. intros n Hn.
  rewrite Z.land_spec, Z.bits_0.
  destruct (Z.ltb_spec n k) as [Hlt|Hge].
  - rewrite Z.shiftl_spec_low by exact Hlt. reflexivity.
  - destruct (Z.eq_dec b 0) as [->|Hnz]; [rewrite Z.bits_0; apply andb_false_r|].
    rewrite (Z.bits_above_log2 b n); [apply andb_false_r|lia|].
    apply Z.log2_lt_pow2; [lia|]. apply Z.lt_le_trans with (2 ^ k); [lia|]. apply Z.pow_le_mono_r; lia.
Qed.

Lemma land_pow2_test n k : 0 <= k -> 0 <= n < 2 ^ (k + 1) -> (Z.land n (Z.shiftl 1 k) =? 0) = (n <? 2 ^ k).
Proof.
  intros Hk Hn. rewrite Z.shiftl_1_l.
  assert (Hp : 2 ^ (k + 1) = 2 * 2 ^ k) by (rewrite Z.pow_add_r by lia; lia).
  assert (Hpos : 0 < 2 ^ k) by (apply Z.pow_pos_nonneg; lia).
  destruct (Z.ltb_spec n (2 ^ k)) as [Hlt|Hge].
  - apply Z.eqb_eq. apply Z.bits_inj'. intros m Hm. rewrite Z.land_spec, Z.bits_0.
    destruct (Z.eq_dec m k) as [->|Hne].
    + destruct (Z.eq_dec n 0) as [->|Hnz]; [rewrite Z.bits_0; reflexivity|].
      rewrite (Z.bits_above_log2 n k); [reflexivity|lia|]. apply Z.log2_lt_pow2; lia.
    + rewrite Z.pow2_bits_false by lia. apply andb_false_r.
  - apply Z.eqb_neq. intro H0.
    assert (Hb : Z.testbit (Z.land n (2 ^ k)) k = true).
    { rewrite Z.land_spec, Z.pow2_bits_true by lia. rewrite andb_true_r.
      apply Z.testbit_true; [lia|]. replace n with ((n - 2 ^ k) + 1 * 2 ^ k) by lia.
      rewrite Z.div_add by lia. rewrite (Z.div_small (n - 2 ^ k)) by lia. reflexivity. }
    rewrite H0, Z.bits_0 in Hb. discriminate.
Qed.



Lemma lor_mul_add a b k : 0 <= k -> 0 <= a -> 0 <= b < 2 ^ k -> Z.lor (a * 2 ^ k) b = a * 2 ^ k + b.
Proof. intros. rewrite <- Z.shiftl_mul_pow2 by assumption. rewrite lor_shiftl_add by assumption. rewrite Z.shiftl_mul_pow2 by assumption. reflexivity. Qed.

Theorem go_readTwos24_spec b0 b1 b2 : go_readTwos24 (b2z b0) (b2z b1) (b2z b2) = read_twos24 [b0; b1; b2].
Proof.
  pose proof (b2z_range b0) as H0. pose proof (b2z_range b1) as H1. pose proof (b2z_range b2) as H2.
  unfold go_readTwos24, read_twos24, twos, be. cbn [firstn be_acc].
  set (x0 := b2z b0) in *. set (x1 := b2z b1) in *. set (x2 := b2z b2) in *.
  rewrite !Z.shiftl_mul_pow2 by lia.
  rewrite (lor_mul_add x0 (x1 * 2 ^ 8) 16) by lia.
  replace (x0 * 2 ^ 16 + x1 * 2 ^ 8) with ((x0 * 2 ^ 8 + x1) * 2 ^ 8) by lia.
  rewrite (lor_mul_add (x0 * 2 ^ 8 + x1) x2 8) by lia.
  replace ((x0 * 2 ^ 8 + x1) * 2 ^ 8 + x2) with (((0 * 256 + x0) * 256 + x1) * 256 + x2) by lia.
  set (n := ((0 * 256 + x0) * 256 + x1) * 256 + x2).
  assert (Hn : 0 <= n < 2 ^ 24) by (subst n; lia).
  rewrite <- (Z.shiftl_mul_pow2 1 23) by lia.
  rewrite (land_pow2_test n 23) by (change (23 + 1) with 24; lia).
  change (24 - 1) with 23. destruct (n <? 2 ^ 23); reflexivity.
Qed.

Theorem go_readTwos48_spec b0 b1 b2 b3 b4 b5 :
  go_readTwos48 (b2z b0) (b2z b1) (b2z b2) (b2z b3) (b2z b4) (b2z b5) = read_twos48 [b0; b1; b2; b3; b4; b5].
Proof.
  pose proof (b2z_range b0) as H0. pose proof (b2z_range b1) as H1. pose proof (b2z_range b2) as H2.
  pose proof (b2z_range b3) as H3. pose proof (b2z_range b4) as H4. pose proof (b2z_range b5) as H5.
  unfold go_readTwos48, read_twos48, twos, be. cbn [firstn be_acc].
  set (x0 := b2z b0) in *. set (x1 := b2z b1) in *. set (x2 := b2z b2) in *.
  set (x3 := b2z b3) in *. set (x4 := b2z b4) in *. set (x5 := b2z b5) in *.
  rewrite !Z.shiftl_mul_pow2 by lia.
  rewrite (lor_mul_add x0 (x1 * 2 ^ 32) 40) by lia.
  replace (x0 * 2 ^ 40 + x1 * 2 ^ 32) with ((x0 * 2 ^ 8 + x1) * 2 ^ 32) by lia.
  rewrite (lor_mul_add (x0 * 2 ^ 8 + x1) (x2 * 2 ^ 24) 32) by lia.
  replace ((x0 * 2 ^ 8 + x1) * 2 ^ 32 + x2 * 2 ^ 24) with (((x0 * 2 ^ 8 + x1) * 2 ^ 8 + x2) * 2 ^ 24) by lia.
  rewrite (lor_mul_add ((x0 * 2 ^ 8 + x1) * 2 ^ 8 + x2) (x3 * 2 ^ 16) 24) by lia.
  replace (((x0 * 2 ^ 8 + x1) * 2 ^ 8 + x2) * 2 ^ 24 + x3 * 2 ^ 16) with ((((x0 * 2 ^ 8 + x1) * 2 ^ 8 + x2) * 2 ^ 8 + x3) * 2 ^ 16) by lia.
  rewrite (lor_mul_add (((x0 * 2 ^ 8 + x1) * 2 ^ 8 + x2) * 2 ^ 8 + x3) (x4 * 2 ^ 8) 16) by lia.
  replace ((((x0 * 2 ^ 8 + x1) * 2 ^ 8 + x2) * 2 ^ 8 + x3) * 2 ^ 16 + x4 * 2 ^ 8) with (((((x0 * 2 ^ 8 + x1) * 2 ^ 8 + x2) * 2 ^ 8 + x3) * 2 ^ 8 + x4) * 2 ^ 8) by lia.
  rewrite (lor_mul_add ((((x0 * 2 ^ 8 + x1) * 2 ^ 8 + x2) * 2 ^ 8 + x3) * 2 ^ 8 + x4) x5 8) by lia.
  replace (((((x0 * 2 ^ 8 + x1) * 2 ^ 8 + x2) * 2 ^ 8 + x3) * 2 ^ 8 + x4) * 2 ^ 8 + x5)
    with ((((((0 * 256 + x0) * 256 + x1) * 256 + x2) * 256 + x3) * 256 + x4) * 256 + x5) by lia.
  set (n := (((((0 * 256 + x0) * 256 + x1) * 256 + x2) * 256 + x3) * 256 + x4) * 256 + x5).
  assert (Hn : 0 <= n < 2 ^ 48) by (subst n; lia).
  rewrite <- (Z.shiftl_mul_pow2 1 47) by lia.
  rewrite (land_pow2_test n 47) by (change (47 + 1) with 48; lia).
  change (48 - 1) with 47. destruct (n <? 2 ^ 47); reflexivity.
Qed.
