(* C05, end to end: the high level API answered from the bytes of the file alone
   (Model/E2E.v: sqlite_master -> tokenizer -> generated parser -> newSchema -> operation)
   returns rows and/or an ordinary error for EVERY byte string, page size, table / index /
   column name, key and non-panicking callback.  The schema step cannot fail in any other way
   than "no such table" / "cannot interpret"; what the parser itself can do is C16_parse_total. *)
From Coq Require Import ZArith List String Bool Lia.
From SQ Require Import Model.Base Model.Text Model.Record Model.Page Model.Btree Model.Cmp Model.Low Model.High
     Model.SqlParse Model.Tokenizer Model.Schema Model.Run Model.E2E
     Proofs.TotalP Proofs.TotalLowP Proofs.TotalHighP.
Import ListNotations.
Open Scope Z_scope.

Lemma db_schema_err ms table e : db_schema ms table = Err e -> e = ENoSuch \/ e = EOther.
Proof.
  unfold db_schema. destruct (find _ ms) as [m|]; [|intros H; inversion H; left; reflexivity].
  destruct (is_nil (m_sql m)); [intros H; inversion H; left; reflexivity|].
  destruct (new_schema _ _); [discriminate|intros H; inversion H; right; reflexivity].
Qed.

Section E2ETotal.
  Variable img : list byte.
  Variable U : Z.
  Hypothesis HU : 512 <= U.
  Let pg := image_pager img U.
  Let op := openp pg U.
  Let n := image_pages img U.
  Variable S : Type.
  Variable cb : row -> S -> flow * S.
  Hypothesis Hcb : forall r s, fl_ok (cb r s).

  Lemma with_schema_ok (s : S) table (k : schema -> flow * S) : (forall sc, fl_ok (k sc)) -> fl_ok (with_schema pg op n s table k).
  Proof.
    intros Hk. unfold with_schema.
    pose proof (image_master_ok img U HU) as Hm. fold pg op n in Hm.
    destruct (master pg op n) as [[| |e] ms].
    - destruct (db_schema ms table) as [st|e] eqn:Ed; [apply Hk|].
      destruct (db_schema_err _ _ _ Ed) as [-> | ->]; exact I.
    - destruct (db_schema ms table) as [st|e] eqn:Ed; [apply Hk|].
      destruct (db_schema_err _ _ _ Ed) as [-> | ->]; exact I.
    - unfold fl_ok in *. cbn [fst] in *. exact Hm.
  Qed.

  Theorem e_select_ok table columns s : fl_ok (e_select pg op n S cb table columns s).
  Proof. unfold e_select. apply with_schema_ok. intros sc. apply (h_select_ok img U HU S cb Hcb). Qed.

  Theorem e_select_rowid_ok table rowid columns s : fl_ok (e_select_rowid pg op n S cb table rowid columns s).
  Proof. unfold e_select_rowid. apply with_schema_ok. intros sc. apply (h_select_rowid_ok img U HU S cb Hcb). Qed.

  Theorem e_indexed_select_ok table iname columns s : fl_ok (e_indexed_select pg op n S cb table iname columns s).
  Proof. unfold e_indexed_select. apply with_schema_ok. intros sc. apply (h_indexed_select_ok img U HU S cb Hcb). Qed.

  Theorem e_indexed_select_eq_ok table iname k columns s : fl_ok (e_indexed_select_eq pg op n S cb table iname k columns s).
  Proof. unfold e_indexed_select_eq. apply with_schema_ok. intros sc. apply (h_indexed_select_eq_ok img U HU S cb Hcb). Qed.

  Theorem e_pk_select_ok table k columns s : fl_ok (e_pk_select pg op n S cb table k columns s).
  Proof. unfold e_pk_select. apply with_schema_ok. intros sc. apply (h_pk_select_ok img U HU S cb Hcb). Qed.
End E2ETotal.

(* when the file's own definition of the table can be interpreted, the end to end operations ARE the
   operations of Model/High.v on the schema record computed from the file: every theorem stated there
   for an arbitrary schema record (C01 - C04, C12, C17) applies to it *)
Section E2EIsHigh.
  Variable pg : Z -> res (list byte).
  Variable op : Z -> res page.
  Variable n : nat.
  Lemma with_schema_is {S} (s : S) table k ms st fl : master pg op n = (fl, ms) -> (forall e, fl <> Fail e) ->
    db_schema ms table = Ok st -> with_schema pg op n s table k = k (schema_of st).
  Proof. intros Hm Hf Hd. unfold with_schema. rewrite Hm. destruct fl as [| |e]; [rewrite Hd; reflexivity|rewrite Hd; reflexivity|exfalso; exact (Hf e eq_refl)]. Qed.

  Theorem e_select_is_h_select S cb table columns (s : S) ms st fl : master pg op n = (fl, ms) -> (forall e, fl <> Fail e) ->
    db_schema ms table = Ok st ->
    e_select pg op n S cb table columns s = h_select pg op n S cb (schema_of st) table columns s.
  Proof. intros Hm Hf Hd. unfold e_select. exact (with_schema_is s table _ ms st fl Hm Hf Hd). Qed.

  Theorem e_select_rowid_is_h S cb table rowid columns (s : S) ms st fl : master pg op n = (fl, ms) -> (forall e, fl <> Fail e) ->
    db_schema ms table = Ok st ->
    e_select_rowid pg op n S cb table rowid columns s = h_select_rowid pg op n S cb (schema_of st) table rowid columns s.
  Proof. intros Hm Hf Hd. unfold e_select_rowid. exact (with_schema_is s table _ ms st fl Hm Hf Hd). Qed.

  Theorem e_indexed_select_is_h S cb table iname columns (s : S) ms st fl : master pg op n = (fl, ms) -> (forall e, fl <> Fail e) ->
    db_schema ms table = Ok st ->
    e_indexed_select pg op n S cb table iname columns s = h_indexed_select pg op n S cb (schema_of st) table iname columns s.
  Proof. intros Hm Hf Hd. unfold e_indexed_select. exact (with_schema_is s table _ ms st fl Hm Hf Hd). Qed.

  Theorem e_indexed_select_eq_is_h S cb table iname k columns (s : S) ms st fl : master pg op n = (fl, ms) -> (forall e, fl <> Fail e) ->
    db_schema ms table = Ok st ->
    e_indexed_select_eq pg op n S cb table iname k columns s = h_indexed_select_eq pg op n S cb (schema_of st) table iname k columns s.
  Proof. intros Hm Hf Hd. unfold e_indexed_select_eq. exact (with_schema_is s table _ ms st fl Hm Hf Hd). Qed.

  Theorem e_pk_select_is_h S cb table k columns (s : S) ms st fl : master pg op n = (fl, ms) -> (forall e, fl <> Fail e) ->
    db_schema ms table = Ok st ->
    e_pk_select pg op n S cb table k columns s = h_pk_select pg op n S cb (schema_of st) table k columns s.
  Proof. intros Hm Hf Hd. unfold e_pk_select. exact (with_schema_is s table _ ms st fl Hm Hf Hd). Qed.

  (* a definition that cannot be interpreted produces an error, never rows (C01's last sentence) *)
  Theorem e_select_uninterpretable S cb table columns (s : S) ms fl e : master pg op n = (fl, ms) ->
    db_schema ms table = Err e -> exists e', e_select pg op n S cb table columns s = (Fail e', s).
  Proof.
    intros Hm Hd. unfold e_select, with_schema. rewrite Hm. destruct fl as [| |e0]; [rewrite Hd; eexists; reflexivity|rewrite Hd; eexists; reflexivity|eexists; reflexivity].
  Qed.
End E2EIsHigh.
