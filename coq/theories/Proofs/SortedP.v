(* From C11 to C03 / C13: an index whose entries are sorted by the index's own
   order (columns compared by SQLite's order with the column's collation,
   DESC columns reversed, lexicographically) is laid out, for every key that
   carries the index's collations and directions on a prefix of its columns,
   as  less*  equal*  greater*  - the hypothesis [three_runs] / [mono] of the
   scan theorems. *)
From SQ Require Import Model.Base Model.Record Model.Float Model.Cmp Spec.Order
     Proofs.SearchP Proofs.CmpP Proofs.IntRealP Proofs.ScanP.
From Coq Require Import Sorting.Sorted.

(* comparison results as an order Lt < Eq < Gt *)
Definition crank (c : comparison) : Z := match c with Lt => 0 | Eq => 1 | Gt => 2 end.

Lemma crank_range c : 0 <= crank c <= 2.
Proof. destruct c; cbn; lia. Qed.

(* one column of the index order *)
Definition adj (desc : bool) (c : comparison) : comparison := if desc then CompOpp c else c.
Definition col_cmp (cd : collation * bool) (a b : value) : comparison := adj (snd cd) (s_cmp (fst cd) a b).

(* the index order on entries; an entry that runs out of columns first sorts first *)
Fixpoint rcmp (cols : list (collation * bool)) (r1 r2 : record) : comparison :=
  match cols with
  | [] => Eq
  | cd :: cols' =>
    match r1, r2 with
    | [], [] => Eq
    | [], _ => Lt
    | _, [] => Gt
    | v1 :: r1', v2 :: r2' => match col_cmp cd v1 v2 with Eq => rcmp cols' r1' r2' | o => o end
    end
  end.

(* the key's columns carry the index's collations and directions *)
Fixpoint key_matches (cols : list (collation * bool)) (k : key) : Prop :=
  match k, cols with
  | [], _ => True
  | kc :: k', cd :: cols' => kcoll kc = fst cd /\ kdesc kc = snd cd /\ key_matches cols' k'
  | _ :: _, [] => False
  end.

(* facts about one column, all from the total preorder (C11) *)
Section Col.
  Variable cd : collation * bool.
  Variables a b x : value.
  Hypothesis Sa : storable a.
  Hypothesis Sb : storable b.
  Hypothesis Sx : storable x.

  Lemma col_cmp_antisym u v : col_cmp cd v u = CompOpp (col_cmp cd u v).
  Proof. unfold col_cmp, adj. rewrite (s_cmp_antisym (fst cd) u v). destruct (snd cd); [rewrite CompOpp_involutive|]; reflexivity. Qed.

  Lemma col_cle_trans u v w : storable u -> storable v -> storable w ->
    cle (col_cmp cd u v) -> cle (col_cmp cd v w) -> cle (col_cmp cd u w).
  Proof.
    intros Su Sv Sw. unfold col_cmp, adj. destruct (snd cd).
    - (* reversed order: u <= v reversed means v <= u *)
      unfold cle. intros H1 H2.
      assert (G1 : cle (s_cmp (fst cd) v u)) by (unfold cle; rewrite (s_cmp_antisym (fst cd) u v); destruct (s_cmp (fst cd) u v); cbn in *; congruence).
      assert (G2 : cle (s_cmp (fst cd) w v)) by (unfold cle; rewrite (s_cmp_antisym (fst cd) v w); destruct (s_cmp (fst cd) v w); cbn in *; congruence).
      pose proof (s_cmp_trans (fst cd) w v u Sw Sv Su G2 G1) as G. unfold cle in G.
      rewrite (s_cmp_antisym (fst cd) u w) in G. destruct (s_cmp (fst cd) u w); cbn in *; congruence.
    - apply s_cmp_trans; assumption.
  Qed.

  (* a <= b in the column order: then (a vs x) <= (b vs x) as Lt < Eq < Gt *)
  Lemma col_mono : cle (col_cmp cd a b) -> crank (col_cmp cd a x) <= crank (col_cmp cd b x).
  Proof.
    intros Hab.
    destruct (col_cmp cd b x) eqn:Ebx; cbn [crank].
    - (* b = x: a <= x *)
      assert (H : cle (col_cmp cd a x)) by (apply (col_cle_trans a b x); auto; unfold cle; congruence).
      unfold cle in H. destruct (col_cmp cd a x); cbn; try lia. congruence.
    - (* b < x: a < x *)
      assert (H : cle (col_cmp cd a x)) by (apply (col_cle_trans a b x); auto; unfold cle; congruence).
      destruct (col_cmp cd a x) eqn:Eax; cbn; try lia; [|unfold cle in H; congruence].
      (* a = x would give x <= a <= b, i.e. not b < x *)
      exfalso.
      assert (Hxa : cle (col_cmp cd x a)) by (unfold cle; rewrite (col_cmp_antisym a x), Eax; cbn; congruence).
      pose proof (col_cle_trans x a b Sx Sa Sb Hxa Hab) as G. unfold cle in G.
      rewrite (col_cmp_antisym b x), Ebx in G. cbn in G. congruence.
    - destruct (col_cmp cd a x); cbn; lia.
  Qed.
End Col.

(* the key against an entry, in terms of the column order *)
Lemma kcmp_cons kc k v r : kcmp (kc :: k) (v :: r) =
  match col_cmp (kcoll kc, kdesc kc) v (kv kc) with Eq => kcmp k r | o => o end.
Proof. cbn [kcmp]. unfold col_cmp, adj. cbn [fst snd]. reflexivity. Qed.

(* entries in index order meet the key in the order Lt, Eq, Gt *)
Theorem kcmp_monotone cols : forall k r1 r2, key_matches cols k ->
  Forall (fun kc => storable (kv kc)) k -> Forall storable r1 -> Forall storable r2 ->
  cle (rcmp cols r1 r2) -> crank (kcmp k r1) <= crank (kcmp k r2).
Proof.
  induction cols as [|cd cols IH]; intros k r1 r2 Hm Hk H1 H2 Hle.
  - destruct k as [|kc k]; [cbn; lia|cbn in Hm; contradiction].
  - destruct k as [|kc k]; [cbn; lia|]. cbn [key_matches] in Hm. destruct Hm as (Hc & Hd & Hm).
    inversion Hk as [|? ? Skc Hk']; subst.
    destruct r1 as [|v1 r1].
    + replace (kcmp (kc :: k) []) with Lt by reflexivity. cbn [crank]. apply (proj1 (crank_range _)).
    + destruct r2 as [|v2 r2]; [cbn [rcmp] in Hle; unfold cle in Hle; congruence|].
      inversion H1 as [|? ? S1 H1']; subst. inversion H2 as [|? ? S2 H2']; subst.
      rewrite !kcmp_cons. replace (kcoll kc, kdesc kc) with cd by (destruct cd; cbn in *; congruence).
      cbn [rcmp] in Hle.
      destruct (col_cmp cd v1 v2) eqn:E12.
      * (* equal in this column: same verdict here, the rest decides *)
        assert (A : crank (col_cmp cd v1 (kv kc)) <= crank (col_cmp cd v2 (kv kc))) by (apply col_mono; auto; unfold cle; congruence).
        assert (B : crank (col_cmp cd v2 (kv kc)) <= crank (col_cmp cd v1 (kv kc))).
        { apply col_mono; auto. unfold cle. rewrite (col_cmp_antisym cd v1 v2), E12. cbn. congruence. }
        assert (E : col_cmp cd v1 (kv kc) = col_cmp cd v2 (kv kc)) by (destruct (col_cmp cd v1 (kv kc)), (col_cmp cd v2 (kv kc)); cbn in *; try lia; reflexivity).
        rewrite E. destruct (col_cmp cd v2 (kv kc)); [apply IH; assumption|lia|lia].
      * (* strictly before in this column *)
        assert (A : crank (col_cmp cd v1 (kv kc)) <= crank (col_cmp cd v2 (kv kc))) by (apply col_mono; auto; unfold cle; congruence).
        destruct (col_cmp cd v1 (kv kc)) eqn:E1; destruct (col_cmp cd v2 (kv kc)) eqn:E2; cbn [crank] in *; try lia.
        -- (* both equal to the key's value: then v1 = v2 in the column order *)
           exfalso.
           assert (G1 : cle (col_cmp cd v2 (kv kc))) by (unfold cle; congruence).
           assert (G2 : cle (col_cmp cd (kv kc) v1)) by (unfold cle; rewrite (col_cmp_antisym cd v1 (kv kc)), E1; cbn; congruence).
           pose proof (col_cle_trans cd v2 (kv kc) v1 S2 Skc S1 G1 G2) as G. unfold cle in G.
           rewrite (col_cmp_antisym cd v1 v2), E12 in G. cbn in G. congruence.
        -- destruct (kcmp k r1); cbn; lia.
        -- destruct (kcmp k r2); cbn; lia.
      * unfold cle in Hle. congruence.
Qed.

(* a list along which a class function never decreases splits into its three classes *)
Lemma monotone_split {A} (g : A -> comparison) (l : list A) :
  StronglySorted (fun a b => crank (g a) <= crank (g b)) l ->
  exists a b c, l = a ++ b ++ c /\ Forall (fun x => g x = Lt) a /\ Forall (fun x => g x = Eq) b /\ Forall (fun x => g x = Gt) c.
Proof.
  induction 1 as [|x l _ (a & b & c & -> & Ha & Hb & Hc) Hx].
  - exists [], [], []. repeat split; constructor.
  - destruct (g x) eqn:Ex.
    + (* Eq: nothing after it is Lt *)
      assert (a = []) as ->.
      { destruct a as [|y a]; [reflexivity|]. exfalso. inversion Ha as [|? ? Hy _]; subst.
        rewrite Forall_forall in Hx. specialize (Hx y (or_introl eq_refl)). rewrite Hy in Hx. cbn in Hx. lia. }
      exists [], (x :: b), c. cbn [app]. repeat split; auto; try (constructor; assumption).
    + exists (x :: a), b, c. cbn [app]. repeat split; auto; try (constructor; assumption).
    + assert (a = []) as ->.
      { destruct a as [|y a]; [reflexivity|]. exfalso. inversion Ha as [|? ? Hy _]; subst.
        rewrite Forall_forall in Hx. specialize (Hx y (or_introl eq_refl)). rewrite Hy in Hx. cbn in Hx. lia. }
      assert (b = []) as ->.
      { destruct b as [|y b]; [reflexivity|]. exfalso. inversion Hb as [|? ? Hy _]; subst.
        rewrite Forall_forall in Hx. specialize (Hx y (or_introl eq_refl)). rewrite Hy in Hx. cbn in Hx. lia. }
      exists [], [], (x :: c). cbn [app]. repeat split; auto; try (constructor; assumption).
Qed.

(* the hypothesis of the scan theorems, derived: a sorted index is less* equal* greater* for the key *)
Theorem sorted_three_runs cols k l : key_matches cols k ->
  Forall (fun kc => storable (kv kc)) k -> Forall (Forall storable) l ->
  StronglySorted (fun r1 r2 => cle (rcmp cols r1 r2)) l ->
  three_runs record (search k) (equals k) l.
Proof.
  intros Hm Hk Hl Hs.
  assert (Hg : StronglySorted (fun a b => crank (kcmp k a) <= crank (kcmp k b)) l).
  { clear -Hm Hk Hl Hs. induction Hs as [|x l Hs IH Hx]; [constructor|].
    inversion Hl as [|? ? Sx Hl']; subst. constructor; [apply IH; assumption|].
    rewrite Forall_forall in Hx, Hl' |- *. intros y Hy. apply (kcmp_monotone cols); auto. }
  destruct (monotone_split (kcmp k) l Hg) as (a & b & c & -> & Ha & Hb & Hc).
  assert (Hl' : forall r, In r (a ++ b ++ c) -> Forall storable r) by (rewrite Forall_forall in Hl; exact Hl).
  exists a, b, c. split; [reflexivity|].
  assert (Hse : forall r, Forall storable r -> search k r = match kcmp k r with Lt => false | _ => true end /\
                                                equals k r = match kcmp k r with Eq => true | _ => false end).
  { intros r Hr. split; [apply search_kcmp|apply equals_kcmp]; apply agrees_storable; assumption. }
  repeat split.
  - rewrite Forall_forall in *. intros r Hr. destruct (Hse r (Hl' r ltac:(apply in_or_app; left; exact Hr))) as [-> ->]. rewrite (Ha r Hr). split; reflexivity.
  - rewrite Forall_forall in *. intros r Hr. destruct (Hse r (Hl' r ltac:(apply in_or_app; right; apply in_or_app; left; exact Hr))) as [-> ->]. rewrite (Hb r Hr). split; reflexivity.
  - rewrite Forall_forall in *. intros r Hr. destruct (Hse r (Hl' r ltac:(apply in_or_app; right; apply in_or_app; right; exact Hr))) as [-> ->]. rewrite (Hc r Hr). split; reflexivity.
Qed.

Corollary sorted_mono cols k l : key_matches cols k ->
  Forall (fun kc => storable (kv kc)) k -> Forall (Forall storable) l ->
  StronglySorted (fun r1 r2 => cle (rcmp cols r1 r2)) l -> mono (search k) l.
Proof. intros. eapply three_runs_mono. eapply sorted_three_runs; eassumption. Qed.

(* ---- adjacent sortedness is enough: the index order is transitive ---- *)
Lemma col_eq_congr cd a b x : storable a -> storable b -> storable x ->
  col_cmp cd a b = Eq -> col_cmp cd a x = col_cmp cd b x.
Proof.
  intros Sa Sb Sx E.
  assert (A : crank (col_cmp cd a x) <= crank (col_cmp cd b x)) by (apply col_mono; auto; unfold cle; congruence).
  assert (B : crank (col_cmp cd b x) <= crank (col_cmp cd a x)).
  { apply col_mono; auto. unfold cle. rewrite (col_cmp_antisym cd a b), E. cbn. congruence. }
  destruct (col_cmp cd a x), (col_cmp cd b x); cbn in *; try lia; reflexivity.
Qed.

Lemma rcmp_le_trans cols : forall r1 r2 r3, Forall storable r1 -> Forall storable r2 -> Forall storable r3 ->
  cle (rcmp cols r1 r2) -> cle (rcmp cols r2 r3) -> cle (rcmp cols r1 r3).
Proof.
  induction cols as [|cd cols IH]; intros r1 r2 r3 S1 S2 S3 H12 H23; [cbn; unfold cle; congruence|].
  destruct r1 as [|v1 r1]; [destruct r3; cbn; unfold cle; congruence|].
  destruct r2 as [|v2 r2]; [cbn in H12; unfold cle in H12; congruence|].
  destruct r3 as [|v3 r3]; [cbn in H23; unfold cle in H23; congruence|].
  inversion S1 as [|? ? Sv1 S1']; subst. inversion S2 as [|? ? Sv2 S2']; subst. inversion S3 as [|? ? Sv3 S3']; subst.
  cbn [rcmp] in *.
  destruct (col_cmp cd v1 v2) eqn:E12.
  - rewrite (col_eq_congr cd v1 v2 v3 Sv1 Sv2 Sv3 E12).
    destruct (col_cmp cd v2 v3); [apply (IH r1 r2 r3); assumption|unfold cle; congruence|exact H23].
  - (* v1 < v2 <= v3 *)
    assert (H : cle (col_cmp cd v2 v3)) by (destruct (col_cmp cd v2 v3); unfold cle in *; congruence).
    pose proof (col_mono cd v2 v3 v1 Sv2 Sv3 Sv1 H) as G.
    rewrite (col_cmp_antisym cd v1 v2), E12 in G. cbn [CompOpp crank] in G.
    rewrite (col_cmp_antisym cd v1 v3) in G.
    destruct (col_cmp cd v1 v3); cbn in G; try lia. unfold cle. congruence.
  - unfold cle in H12. congruence.
Qed.

Definition sle cols (r1 r2 : record) : Prop := Forall storable r1 /\ Forall storable r2 /\ cle (rcmp cols r1 r2).

Lemma sorted_strongly cols l : Forall (Forall storable) l ->
  Sorted (fun r1 r2 => cle (rcmp cols r1 r2)) l -> StronglySorted (fun r1 r2 => cle (rcmp cols r1 r2)) l.
Proof.
  intros Hl Hs.
  assert (Hs' : Sorted (sle cols) l).
  { induction Hs as [|x l Hs IH Hx]; [constructor|]. inversion Hl as [|? ? Sx Hl']; subst.
    constructor; [apply IH; assumption|]. destruct Hx as [|y l Hxy]; constructor.
    inversion Hl' as [|? ? Sy _]; subst. repeat split; assumption. }
  assert (Tr : Relations_1.Transitive (sle cols)).
  { intros a b c (Sa & Sb & Hab) (_ & Sc & Hbc). repeat split; auto. apply (rcmp_le_trans cols a b c); assumption. }
  pose proof (Sorted_StronglySorted Tr Hs') as G.
  clear -G. induction G as [|x l _ IH Hx]; constructor; [exact IH|].
  eapply Forall_impl; [|exact Hx]. intros y (_ & _ & H). exact H.
Qed.

(* an index sorted entry to entry is less* equal* greater* for every matching key *)
Theorem sorted_index_three_runs cols k l : key_matches cols k ->
  Forall (fun kc => storable (kv kc)) k -> Forall (Forall storable) l ->
  Sorted (fun r1 r2 => cle (rcmp cols r1 r2)) l ->
  three_runs record (search k) (equals k) l.
Proof. intros Hm Hk Hl Hs. apply (sorted_three_runs cols); auto. apply sorted_strongly; assumption. Qed.

(* ---- the scans on a sorted index: exactly the matching entries ---- *)
From SQ Require Import Model.Btree Model.Low Spec.Flat Spec.Deliver Proofs.DeliverP Proofs.LowP.

Section SortedScans.
  Variable pg : Z -> res (list byte).
  Variable op : Z -> res Page.page.
  Variable npages : nat.
  Variables (root : Z) (cols : list (collation * bool)) (l : list record).
  Hypothesis Hrows : index_rows pg op npages root = (l, None).
  Hypothesis Hst : Forall (Forall storable) l.
  Hypothesis Hsorted : Sorted (fun r1 r2 => cle (rcmp cols r1 r2)) l.

  (* ScanEq / IndexedSelectEq's core: every entry equal to the key, none else, in index order *)
  Theorem scan_eq_sorted key : key_matches cols key -> Forall (fun kc => storable (kv kc)) key ->
    outcome (index_scan_eq pg op npages _ root key (stop_after None) []) = (None, rev (filter (equals key) l)).
  Proof.
    intros Hm Hk. pose proof (sorted_index_three_runs cols key l Hm Hk Hst Hsorted) as H3.
    rewrite (index_scan_eq_all pg op npages root key l Hrows (three_runs_mono _ _ _ _ H3)).
    rewrite (eq_segment_is_filter _ _ _ _ H3). reflexivity.
  Qed.

  (* ScanMin: every entry not less than the key, none else *)
  Theorem scan_min_sorted from : key_matches cols from -> Forall (fun kc => storable (kv kc)) from ->
    index_scan_min pg op npages _ root from (stop_after None) [] = (Continue, rev (filter (search from) l)).
  Proof.
    intros Hm Hk. pose proof (sorted_index_three_runs cols from l Hm Hk Hst Hsorted) as H3.
    pose proof (three_runs_mono _ _ _ _ H3) as Hmono.
    rewrite (index_scan_min_all pg op npages root from l Hrows Hmono).
    rewrite (min_suffix_is_filter _ _ _ Hmono). reflexivity.
  Qed.
End SortedScans.
