(* C16: the finite range checks over the translated tables, lifted to every
   token list: whatever the input, the driver loop of Model/SqlParse.v never
   performs an out-of-range table access (yyPact / yyDef / yyExca / yyAct /
   yyChk / yyPgo / yyR1 / yyR2 / yyTok1 / yyTok2), never shifts without a
   lookahead, and every state it pushes is a state. *)
From Coq Require Import ZArith List String Bool Lia.
From SQ Require Import Gen.ParserTables Model.SqlParse.
Import ListNotations.
Open Scope Z_scope.

Definition st_ok (z : Z) : Prop := 0 <= z < Z.of_nat nstates.
Definition tokrange : list Z := zrange (Z.to_nat ntokens + 2).
Definition tok_ok (t : Z) : Prop := In t tokrange.

(* finite facts about THIS run's tables *)
Definition toks_in_range : bool := forallb (fun t => existsb (Z.eqb t) tokrange) (yyTok1 ++ yyTok2).
(* the finite checks of Model/SqlParse.v, with their rows named so that their use below is syntactic *)
Definition dec_cell (s t : Z) : bool := decision_ok (decide s (Some t)).
Definition dec_row (s : Z) : bool := decision_ok (decide s None) && forallb (dec_cell s) tokrange.
Definition goto_cell (lhs b : Z) : bool :=
  match goto_state lhs b with Some s => (0 <=? s) && (s <? Z.of_nat nstates) | None => false end.
Definition goto_row (lhs : Z) : bool := forallb (goto_cell lhs) (zrange nstates).
Lemma decisions_fact : forallb dec_row (zrange nstates) = true. Proof. vm_compute. reflexivity. Qed.
Lemma gotos_fact : forallb goto_row (tl yyR1) = true. Proof. vm_compute. reflexivity. Qed.
(* they are the checks of Model/SqlParse.v *)
Lemma decisions_same : decisions_ok = forallb dec_row (zrange nstates). Proof. reflexivity. Qed.
Lemma gotos_same : gotos_ok = forallb goto_row (tl yyR1). Proof. reflexivity. Qed.
Lemma toks_fact : toks_in_range = true. Proof. vm_compute. reflexivity. Qed.
Lemma tok2_len_fact : 2 <= Z.of_nat (List.length yyTok2). Proof. vm_compute. discriminate. Qed.
Lemma tok1_len_fact : 1 <= Z.of_nat (List.length yyTok1). Proof. vm_compute. discriminate. Qed.
Lemma nstates_fact : 0 < Z.of_nat nstates. Proof. vm_compute. reflexivity. Qed.

Lemma in_zrange n z : 0 <= z < Z.of_nat n -> In z (zrange n).
Proof.
  intros H. unfold zrange. apply in_map_iff. exists (Z.to_nat z). split; [lia|]. apply in_seq. lia.
Qed.
Lemma zrange_in n z : In z (zrange n) -> 0 <= z < Z.of_nat n.
Proof. unfold zrange. intros H. apply in_map_iff in H. destruct H as (k & <- & Hk). apply in_seq in Hk. lia. Qed.

Lemma nthZ_some l i : 0 <= i < Z.of_nat (List.length l) -> exists x, nthZ l i = Some x /\ In x l.
Proof.
  intros H. unfold nthZ. destruct (i <? 0) eqn:E; [lia|].
  destruct (nth_error l (Z.to_nat i)) as [x|] eqn:En; [exists x; split; [reflexivity|eapply nth_error_In; eassumption]|].
  apply nth_error_None in En. lia.
Qed.
Lemma nthZ_in l i x : nthZ l i = Some x -> In x l /\ 0 <= i < Z.of_nat (List.length l).
Proof.
  unfold nthZ. destruct (i <? 0) eqn:E; [discriminate|]. intros H. split; [eapply nth_error_In; eassumption|].
  assert (Z.to_nat i < List.length l)%nat by (apply nth_error_Some; congruence). lia.
Qed.

Lemma tok_tables x : In x (yyTok1 ++ yyTok2) -> tok_ok x.
Proof.
  pose proof toks_fact as H. unfold toks_in_range in H.
  rewrite forallb_forall in H. intros Hx. specialize (H x Hx). apply existsb_exists in H. destruct H as (y & Hy & E).
  apply Z.eqb_eq in E. subst. exact Hy.
Qed.

Lemma nthZ_tl (l : list Z) p x : 0 < p -> nthZ l p = Some x -> In x (tl l).
Proof.
  intros Hp H. unfold nthZ in H. destruct (p <? 0); [discriminate|]. destruct l as [|r0 rest]; [destruct (Z.to_nat p); discriminate|].
  cbn [tl]. destruct (Z.to_nat p) as [|k] eqn:Ek; [lia|]. cbn [nth_error] in H. eapply nth_error_In. exact H.
Qed.

(* the lexer adapter always yields a token class in range *)
Lemma lex1_ok c : exists t, lex1 c = Some t /\ tok_ok t.
Proof.
  pose proof tok2_len_fact as L2. pose proof tok1_len_fact as L1.
  assert (Hfallback : exists t, nthZ yyTok2 1 = Some t /\ tok_ok t).
  { destruct (nthZ_some yyTok2 1 ltac:(lia)) as (x & Hx & Hin). exists x. split; [exact Hx|]. apply tok_tables. apply in_or_app. right. exact Hin. }
  unfold lex1.
  set (r := if c <=? 0 then nthZ yyTok1 0 else if c <? Z.of_nat (List.length yyTok1) then nthZ yyTok1 c
            else if (yyPrivate <=? c) && (c <? yyPrivate + Z.of_nat (List.length yyTok2)) then nthZ yyTok2 (c - yyPrivate) else Some 0).
  assert (Hr : r = Some 0 \/ exists t, r = Some t /\ tok_ok t).
  { subst r. destruct (c <=? 0) eqn:E0.
    - destruct (nthZ_some yyTok1 0 ltac:(lia)) as (x & Hx & Hin). right. exists x. split; [exact Hx|]. apply tok_tables. apply in_or_app. left. exact Hin.
    - destruct (c <? Z.of_nat (List.length yyTok1)) eqn:E1.
      + destruct (nthZ_some yyTok1 c ltac:(lia)) as (x & Hx & Hin). right. exists x. split; [exact Hx|]. apply tok_tables. apply in_or_app. left. exact Hin.
      + destruct ((yyPrivate <=? c) && (c <? yyPrivate + Z.of_nat (List.length yyTok2))) eqn:E2; [|left; reflexivity].
        apply andb_true_iff in E2. destruct E2.
        destruct (nthZ_some yyTok2 (c - yyPrivate) ltac:(lia)) as (x & Hx & Hin). right. exists x. split; [exact Hx|]. apply tok_tables. apply in_or_app. right. exact Hin. }
  destruct Hr as [->|(t & -> & Ht)]; [exact Hfallback|].
  destruct (Z.eq_dec t 0) as [->|Hn]; [exact Hfallback|].
  exists t. split; [|exact Ht]. destruct t; try reflexivity; congruence.
Qed.

(* decisions in range *)
Lemma decide_ok s tok : st_ok s -> (match tok with Some t => tok_ok t | None => True end) -> decision_ok (decide s tok) = true.
Proof.
  intros Hs Ht. pose proof (proj1 (forallb_forall dec_row (zrange nstates)) decisions_fact s (in_zrange _ _ Hs)) as H.
  unfold dec_row in H. apply andb_prop in H. destruct H as [Hn Hall].
  destruct tok as [t|]; [|exact Hn]. exact (proj1 (forallb_forall (dec_cell s) tokrange) Hall t Ht).
Qed.

Lemma default_no_shift s tok a : default_decision s tok <> DShift a.
Proof.
  unfold default_decision. destruct (nthZ yyDef s); [|discriminate].
  destruct (z =? -2); [destruct tok; [destruct (exca_lookup s z0); [destruct (z1 <? 0); [discriminate|destruct (z1 =? 0); discriminate]|discriminate]|discriminate]|].
  destruct (z =? 0); discriminate.
Qed.
Lemma decide_none_no_shift s a : decide s None <> DShift a.
Proof.
  unfold decide. destruct (nthZ yyPact s); [|discriminate]. destruct (z <=? yyFlag); [apply default_no_shift|discriminate].
Qed.

(* the invariant of the driver loop *)
Definition Inv (c : cfg) : Prop :=
  Forall (fun s => st_ok (st s)) (live c) /\ (forall t tk, look c = Some (t, tk) -> tok_ok t).

Definition table_panic (o : outcome) : Prop := match o with BadTable w => w <> "eval"%string | _ => False end.

Lemma st_ok_zero : st_ok 0.
Proof. pose proof nstates_fact. unfold st_ok. lia. Qed.

Lemma top_ok c : Inv c -> st_ok (top_state c).
Proof. intros [H _]. unfold top_state. destruct (live c) as [|s r]; [apply st_ok_zero|inversion H; assumption]. Qed.

Lemma goto_ok lhs below p : 0 < p -> nthZ yyR1 p = Some lhs -> st_ok below -> exists ns, goto_state lhs below = Some ns /\ st_ok ns.
Proof.
  intros Hp Hl Hb.
  assert (Hin : In lhs (tl yyR1)) by (eapply nthZ_tl; eassumption).
  pose proof (proj1 (forallb_forall goto_row (tl yyR1)) gotos_fact lhs Hin) as H. unfold goto_row in H.
  pose proof (proj1 (forallb_forall (goto_cell lhs) (zrange nstates)) H below (in_zrange _ _ Hb)) as G. unfold goto_cell in G.
  destruct (goto_state lhs below) as [ns|]; [|discriminate G]. exists ns. split; [reflexivity|].
  apply andb_prop in G. destruct G as [G1 G2]. apply Z.leb_le in G1. apply Z.ltb_lt in G2. unfold st_ok. split; assumption.
Qed.

Lemma reduce_step c p : Inv c -> 0 < p < Z.of_nat (List.length yyR1) -> p < Z.of_nat (List.length yyR2) ->
  match reduce c p with Next c' => Inv c' | Done o => ~ table_panic o end.
Proof.
  intros [Hlive Hlook] Hp1 Hp2. unfold reduce.
  destruct (nthZ_some yyR2 p ltac:(lia)) as (L & HL & _). destruct (nthZ_some yyR1 p ltac:(lia)) as (lhs & Hlhs & _).
  rewrite HL, Hlhs.
  set (rest := skipn (Z.to_nat L) (live c)).
  assert (Hrest : Forall (fun s => st_ok (st s)) rest).
  { subst rest. rewrite <- (firstn_skipn (Z.to_nat L) (live c)) in Hlive. apply Forall_app in Hlive. apply Hlive. }
  assert (Hbelow : st_ok (match rest with s :: _ => st s | [] => 0 end)).
  { destruct rest as [|s r]; [apply st_ok_zero|inversion Hrest; assumption]. }
  destruct (goto_ok lhs _ p ltac:(lia) Hlhs Hbelow) as (ns & Hg & Hns). rewrite Hg.
  assert (Hnext : forall fs res, Inv {| live := {| st := ns; fields := fs |} :: rest; dead := tl (rev (firstn (Z.to_nat L) (live c)) ++ dead c)%list;
                                       look := look c; input := input c; result := res |}).
  { intros fs res. split; cbn [live look]; [constructor; [exact Hns|exact Hrest]|exact Hlook]. }
  destruct (find_action (Z.to_nat p) actions) as [|f e|e].
  - apply Hnext.
  - destruct (eval _ e); [apply Hnext|cbn [table_panic]; tauto|cbn [table_panic]; intros H; apply H; reflexivity].
  - destruct (eval _ e); [apply Hnext|cbn [table_panic]; tauto|cbn [table_panic]; intros H; apply H; reflexivity].
Qed.

Lemma step_inv c : Inv c -> match step c with Next c' => Inv c' | Done o => ~ table_panic o end.
Proof.
  intros HI. pose proof (top_ok c HI) as Hs. destruct HI as [Hlive Hlook]. unfold step.
  assert (Htok : match option_map fst (look c) with Some t => tok_ok t | None => True end).
  { destruct (look c) as [[t tk]|] eqn:El; cbn [option_map fst]; [eapply Hlook; reflexivity|exact I]. }
  pose proof (decide_ok _ _ Hs Htok) as Hd.
  destruct (decide (top_state c) (option_map fst (look c))) as [a|p| | | |why] eqn:Ed; cbn [decision_ok] in Hd; [| | | | |discriminate Hd].
  - (* shift *)
    destruct (look c) as [[t tk]|] eqn:El.
    + split; cbn [live look]; [|intros ? ? X; discriminate X]. constructor; [|exact Hlive].
      cbn [lex_slot st]. apply andb_true_iff in Hd. destruct Hd. unfold st_ok. lia.
    + exfalso. cbn [option_map] in Ed. eapply decide_none_no_shift. exact Ed.
  - (* reduce *)
    repeat (apply andb_true_iff in Hd; destruct Hd as [Hd ?]).
    apply reduce_step; [split; assumption|lia|lia].
  - cbn [table_panic]. tauto.
  - cbn [table_panic]. tauto.
  - (* need a token *)
    unfold next_tok. destruct (look c) as [[t tk]|] eqn:El.
    + split; [exact Hlive|]. intros t0 tk0 X. rewrite El in X. exact (Hlook t0 tk0 X).
    + destruct (input c) as [|tk0 rest]; cbn zeta.
      * destruct (lex1_ok (ttyp eof_token)) as (t & -> & Ht). split; cbn [live look]; [exact Hlive|]. intros t' tk' X. inversion X; subst. exact Ht.
      * destruct (lex1_ok (ttyp tk0)) as (t & -> & Ht). split; cbn [live look]; [exact Hlive|]. intros t' tk' X. inversion X; subst. exact Ht.
Qed.

Theorem run_no_table_panic : forall fuel c, Inv c -> ~ table_panic (run fuel c).
Proof.
  induction fuel as [|k IH]; intros c HI; cbn [run]; [cbn [table_panic]; tauto|].
  pose proof (step_inv c HI) as H. destruct (step c) as [c'|o]; [apply IH; exact H|exact H].
Qed.

(* for EVERY token list: no out-of-range table access, no shift without a lookahead *)
Theorem parse_no_table_panic fuel toks : ~ table_panic (parse_tokens fuel toks).
Proof.
  unfold parse_tokens. apply run_no_table_panic. split; cbn [live look]; [|intros ? ? X; discriminate X].
  constructor; [apply st_ok_zero|constructor].
Qed.
