(* db/cmp.go against SQLite's order (Spec/Order.v): the order is a total
   preorder, compare() computes it, Equals / Search are its lexicographic
   lifting to keys. *)
From SQ Require Import Model.Base Model.Record Model.Float Model.Cmp Spec.Order Proofs.BaseP.
From Coq Require Import ZifyBool.

(* ---------- comparisons as preorders ---------- *)
Definition cle (c : comparison) : Prop := c <> Gt.

Lemma compopp_eq c : CompOpp c = Eq <-> c = Eq.
Proof. destruct c; cbn; split; congruence. Qed.

(* ---------- bytes_cmp: a total order on byte strings ---------- *)
Lemma bytes_cmp_refl a : bytes_cmp a a = Eq.
Proof. induction a as [|x a IH]; cbn [bytes_cmp]; [reflexivity|]. rewrite Z.compare_refl. exact IH. Qed.

Lemma bytes_cmp_antisym a : forall b, bytes_cmp b a = CompOpp (bytes_cmp a b).
Proof.
  induction a as [|x a IH]; intros [|y b]; cbn [bytes_cmp]; try reflexivity.
  rewrite (Z.compare_antisym (b2z x) (b2z y)). destruct (b2z x ?= b2z y); cbn [CompOpp]; auto.
Qed.

Lemma b2z_inj x y : b2z x = b2z y -> x = y.
Proof. intros H. rewrite <- (z2b_b2z x), <- (z2b_b2z y), H. reflexivity. Qed.

Lemma bytes_cmp_eq a : forall b, bytes_cmp a b = Eq -> a = b.
Proof.
  induction a as [|x a IH]; intros [|y b]; cbn [bytes_cmp]; try congruence.
  destruct (b2z x ?= b2z y) eqn:E; try discriminate.
  intros H. apply Z.compare_eq in E. apply b2z_inj in E. subst. f_equal. auto.
Qed.

Lemma bytes_cmp_trans a : forall b c, cle (bytes_cmp a b) -> cle (bytes_cmp b c) -> cle (bytes_cmp a c).
Proof.
  unfold cle. induction a as [|x a IH]; intros [|y b] [|z c]; cbn [bytes_cmp]; try congruence.
  destruct (b2z x ?= b2z y) eqn:E1; destruct (b2z y ?= b2z z) eqn:E2; try congruence.
  - apply Z.compare_eq in E1, E2. rewrite E1, E2, Z.compare_refl. apply IH.
  - apply Z.compare_eq in E1. rewrite E1, E2. congruence.
  - apply Z.compare_eq in E2. rewrite <- E2, E1. congruence.
  - rewrite Z.compare_lt_iff in E1, E2. assert (H: b2z x < b2z z) by lia.
    rewrite <- Z.compare_lt_iff in H. rewrite H. congruence.
Qed.

(* Lt is transitive too, and compatible with Eq: all that follows from the
   three facts above for any comparison function *)
Section Preorder.
  Variable A : Type.
  Variable cmp : A -> A -> comparison.
  Hypothesis cmp_refl : forall a, cmp a a = Eq.
  Hypothesis cmp_antisym : forall a b, cmp b a = CompOpp (cmp a b).
  Hypothesis cmp_trans : forall a b c, cle (cmp a b) -> cle (cmp b c) -> cle (cmp a c).

  Lemma cmp_total a b : cle (cmp a b) \/ cle (cmp b a).
  Proof. unfold cle. rewrite (cmp_antisym a b). destruct (cmp a b); cbn; [left|left|right]; congruence. Qed.

  Lemma cmp_eq_trans a b c : cmp a b = Eq -> cmp b c = Eq -> cmp a c = Eq.
  Proof.
    intros H1 H2.
    assert (L: cle (cmp a c)) by (apply (cmp_trans a b c); unfold cle; congruence).
    assert (R: cle (cmp c a)).
    { apply (cmp_trans c b a); unfold cle; rewrite cmp_antisym; [rewrite H2|rewrite H1]; cbn; congruence. }
    unfold cle in *. rewrite (cmp_antisym a c) in R. destruct (cmp a c); cbn in *; congruence.
  Qed.

  (* an Eq step does not change the verdict *)
  Lemma cmp_eq_l a b c : cmp a b = Eq -> cmp a c = cmp b c.
  Proof.
    intros H.
    assert (Hba: cmp b a = Eq) by (rewrite cmp_antisym, H; reflexivity).
    destruct (cmp a c) eqn:E1; destruct (cmp b c) eqn:E2; try reflexivity; exfalso.
    - (* a=c, b<c *) assert (X: cle (cmp c b)) by (apply (cmp_trans c a b); unfold cle; [rewrite cmp_antisym, E1|rewrite H]; cbn; congruence).
      unfold cle in X. rewrite cmp_antisym, E2 in X. cbn in X. congruence.
    - assert (X: cle (cmp b c)) by (apply (cmp_trans b a c); unfold cle; [rewrite Hba|rewrite E1]; congruence).
      unfold cle in X. congruence.
    - assert (X: cle (cmp c a)) by (apply (cmp_trans c b a); unfold cle; [rewrite cmp_antisym, E2|rewrite Hba]; cbn; congruence).
      unfold cle in X. rewrite cmp_antisym, E1 in X. cbn in X. congruence.
    - assert (X: cle (cmp b c)) by (apply (cmp_trans b a c); unfold cle; [rewrite Hba|rewrite E1]; congruence).
      unfold cle in X. congruence.
    - assert (X: cle (cmp a c)) by (apply (cmp_trans a b c); unfold cle; [rewrite H|rewrite E2]; congruence).
      unfold cle in X. congruence.
    - assert (X: cle (cmp a c)) by (apply (cmp_trans a b c); unfold cle; [rewrite H|rewrite E2]; congruence).
      unfold cle in X. congruence.
  Qed.
End Preorder.

(* ---------- collations ---------- *)
(* NOCASE as SQLite has it: the folded bytes up to the first NUL, then the total length.  As a sort key: the folded
   prefix (it has no zero byte), a zero byte, and the length in unary *)
Fixpoint upto_nul (s : list byte) : list byte :=
  match s with [] => [] | c :: r => if b2z c =? 0 then [] else lower_byte c :: upto_nul r end.
Definition nocase_key_n (s : list byte) (n : nat) : list byte := upto_nul s ++ x00 :: repeat x01 n.
Definition nocase_key (s : list byte) : list byte := nocase_key_n s (length s).

Definition coll_key (c : collation) (s : list byte) : list byte :=
  match c with CBinary => s | CRtrim => trim_right_sp s | CNocase => nocase_key s end.

Lemma lower_byte_zero x : (b2z (lower_byte x) =? 0) = (b2z x =? 0).
Proof.
  unfold lower_byte. pose proof (b2z_range x) as Hr.
  destruct ((65 <=? b2z x) && (b2z x <=? 90)) eqn:E; [|reflexivity].
  rewrite b2z_z2b by lia. lia.
Qed.

Lemma zcmp_nat n m : Z.compare (Z.of_nat (S n)) (Z.of_nat (S m)) = Z.compare (Z.of_nat n) (Z.of_nat m).
Proof.
  destruct (Z.compare_spec (Z.of_nat n) (Z.of_nat m)); [apply Z.compare_eq_iff|apply Z.compare_lt_iff|apply Z.compare_gt_iff]; lia.
Qed.

Lemma ones_cmp n : forall m, bytes_cmp (repeat x01 n) (repeat x01 m) = Z.compare (Z.of_nat n) (Z.of_nat m).
Proof.
  induction n as [|n IH]; intros [|m]; cbn [repeat bytes_cmp]; try reflexivity.
  change (b2z x01) with 1. change (1 ?= 1) with Eq. cbv iota. rewrite IH. symmetry. apply zcmp_nat.
Qed.

(* the loop of nocaseCompare against the key order; k = the bytes already consumed on both sides *)
Lemma nocase_loop_key : forall a b k,
  match nocase_loop a b with Some c => c | None => Z.compare (Z.of_nat (k + length a)) (Z.of_nat (k + length b)) end =
  bytes_cmp (nocase_key_n a (k + length a)) (nocase_key_n b (k + length b)).
Proof.
  induction a as [|x a IH]; intros [|y b] k; cbn [nocase_loop]; unfold nocase_key_n; cbn [upto_nul length app].
  - cbn [bytes_cmp]. change (b2z x00) with 0. change (0 ?= 0) with Eq. cbv iota. rewrite ones_cmp. reflexivity.
  - destruct (b2z y =? 0) eqn:Ey; cbn [app bytes_cmp]; change (b2z x00) with 0.
    + change (0 ?= 0) with Eq. cbv iota. rewrite ones_cmp. reflexivity.
    + rewrite <- lower_byte_zero in Ey. pose proof (b2z_range (lower_byte y)).
      assert (E : (0 ?= b2z (lower_byte y)) = Lt) by (apply Z.compare_lt_iff; lia). rewrite E.
      apply Z.compare_lt_iff. lia.
  - destruct (b2z x =? 0) eqn:Ex; cbn [app bytes_cmp]; change (b2z x00) with 0.
    + change (0 ?= 0) with Eq. cbv iota. rewrite ones_cmp. reflexivity.
    + rewrite <- lower_byte_zero in Ex. pose proof (b2z_range (lower_byte x)).
      assert (E : (b2z (lower_byte x) ?= 0) = Gt) by (apply Z.compare_gt_iff; lia). rewrite E.
      apply Z.compare_gt_iff. lia.
  - pose proof (lower_byte_zero x) as Zx. pose proof (lower_byte_zero y) as Zy.
    pose proof (b2z_range (lower_byte x)) as Rx. pose proof (b2z_range (lower_byte y)) as Ry.
    destruct (b2z x =? 0) eqn:Ex; destruct (b2z y =? 0) eqn:Ey; cbn [app bytes_cmp]; change (b2z x00) with 0.
    + assert (E : (b2z (lower_byte x) =? b2z (lower_byte y)) = true) by lia. rewrite E. cbn [negb]. rewrite Zx.
      change (0 ?= 0) with Eq. cbv iota. rewrite ones_cmp. reflexivity.
    + assert (E : (b2z (lower_byte x) =? b2z (lower_byte y)) = false) by lia. rewrite E. cbn [negb].
      assert (E0 : b2z (lower_byte x) = 0) by lia. rewrite E0.
      assert (C : (0 ?= b2z (lower_byte y)) = Lt) by (apply Z.compare_lt_iff; lia). rewrite C. reflexivity.
    + assert (E : (b2z (lower_byte x) =? b2z (lower_byte y)) = false) by lia. rewrite E. cbn [negb].
      assert (E0 : b2z (lower_byte y) = 0) by lia. rewrite E0.
      assert (C : (b2z (lower_byte x) ?= 0) = Gt) by (apply Z.compare_gt_iff; lia). rewrite C. reflexivity.
    + destruct (b2z (lower_byte x) =? b2z (lower_byte y)) eqn:E; cbn [negb].
      * rewrite Zx. apply Z.eqb_eq in E. rewrite E, Z.compare_refl.
        replace (k + S (length a))%nat with (S k + length a)%nat by lia.
        replace (k + S (length b))%nat with (S k + length b)%nat by lia. apply IH.
      * destruct (b2z (lower_byte x) ?= b2z (lower_byte y)) eqn:C; try reflexivity.
        apply Z.compare_eq_iff in C. lia.
Qed.

Lemma nocase_cmp_key a b : nocase_cmp a b = bytes_cmp (nocase_key a) (nocase_key b).
Proof. unfold nocase_cmp, nocase_key, len. exact (nocase_loop_key a b 0). Qed.

Lemma collate_cmp_key c a b : collate_cmp c a b = bytes_cmp (coll_key c a) (coll_key c b).
Proof. destruct c; try reflexivity. apply nocase_cmp_key. Qed.

(* ---------- exact comparison of dyadic numbers ---------- *)
Lemma pow2_pos k : 0 <= k -> 0 < 2 ^ k.
Proof. intros. apply Z.pow_pos_nonneg; lia. Qed.

(* any common exponent not above both gives the same verdict *)
Lemma dy_cmp_common m1 e1 m2 e2 E : E <= e1 -> E <= e2 ->
  dy_cmp (m1, e1) (m2, e2) = Z.compare (m1 * 2 ^ (e1 - E)) (m2 * 2 ^ (e2 - E)).
Proof.
  intros H1 H2. unfold dy_cmp. set (e := Z.min e1 e2).
  assert (He: E <= e) by (unfold e; lia).
  assert (Hk: 0 < 2 ^ (e - E)) by (apply pow2_pos; lia).
  replace (e1 - E) with ((e1 - e) + (e - E)) by lia.
  replace (e2 - E) with ((e2 - e) + (e - E)) by lia.
  rewrite !Z.pow_add_r by (unfold e; lia). rewrite !Z.mul_assoc.
  apply Zmult_compare_compat_r. lia.
Qed.

Lemma dy_cmp_refl x : dy_cmp x x = Eq.
Proof. destruct x as [m e]. unfold dy_cmp. apply Z.compare_refl. Qed.

Lemma dy_cmp_antisym x y : dy_cmp y x = CompOpp (dy_cmp x y).
Proof.
  destruct x as [m1 e1], y as [m2 e2]. unfold dy_cmp. rewrite (Z.min_comm e2 e1).
  apply Z.compare_antisym.
Qed.

Lemma dy_cmp_trans x y z : cle (dy_cmp x y) -> cle (dy_cmp y z) -> cle (dy_cmp x z).
Proof.
  destruct x as [m1 e1], y as [m2 e2], z as [m3 e3]. unfold cle.
  set (E := Z.min e1 (Z.min e2 e3)).
  rewrite (dy_cmp_common m1 e1 m2 e2 E), (dy_cmp_common m2 e2 m3 e3 E), (dy_cmp_common m1 e1 m3 e3 E)
    by (unfold E; lia).
  rewrite !Z.compare_gt_iff. lia.
Qed.

(* ---------- numbers ---------- *)
Lemma num_cmp_refl x : num_cmp x x = Eq.
Proof. destruct x; cbn [num_cmp]; try reflexivity. apply dy_cmp_refl. Qed.

Lemma num_cmp_antisym x y : num_cmp y x = CompOpp (num_cmp x y).
Proof. destruct x, y; cbn [num_cmp CompOpp]; try reflexivity. apply dy_cmp_antisym. Qed.

Lemma num_cmp_trans x y z : cle (num_cmp x y) -> cle (num_cmp y z) -> cle (num_cmp x z).
Proof.
  destruct x, y, z; cbn [num_cmp]; unfold cle; try congruence. apply dy_cmp_trans.
Qed.

(* ---------- SQLite's order is a total preorder ---------- *)
Theorem s_cmp_refl c a : s_cmp c a a = Eq.
Proof.
  unfold s_cmp. rewrite Z.compare_refl. destruct a; try reflexivity.
  - cbn [num_of num_cmp]. apply dy_cmp_refl.
  - cbn [num_of]. destruct (is_nan bits); [reflexivity|]. destruct (is_inf bits); [destruct (fsign bits); reflexivity|].
    apply num_cmp_refl.
  - rewrite collate_cmp_key. apply bytes_cmp_refl.
  - apply bytes_cmp_refl.
Qed.

Theorem s_cmp_antisym c a b : s_cmp c b a = CompOpp (s_cmp c a b).
Proof.
  unfold s_cmp. rewrite (Z.compare_antisym (vclass a) (vclass b)).
  destruct a, b; cbn [vclass Z.compare Pos.compare Pos.compare_cont CompOpp]; try reflexivity.
  all: try (rewrite !collate_cmp_key; apply bytes_cmp_antisym).
  all: try apply bytes_cmp_antisym.
  all: cbn [num_of];
       repeat (match goal with |- context [if ?c then _ else _] => destruct c end);
       try reflexivity; apply num_cmp_antisym.
Qed.

Lemma num_of_storable a : storable a -> vclass a = 1 -> exists x, num_of a = Some x.
Proof.
  destruct a; cbn [storable vclass num_of]; try discriminate; intros H _.
  - eauto.
  - destruct H as [_ ->]. destruct (is_inf bits); eauto.
Qed.

Theorem s_cmp_trans c x y z : storable x -> storable y -> storable z ->
  cle (s_cmp c x y) -> cle (s_cmp c y z) -> cle (s_cmp c x z).
Proof.
  intros Sx Sy Sz. unfold s_cmp, cle.
  destruct (Z.compare_spec (vclass x) (vclass y)) as [Exy|Lxy|Gxy];
  destruct (Z.compare_spec (vclass y) (vclass z)) as [Eyz|Lyz|Gyz]; try congruence.
  - (* all three in one class *)
    assert (Exz: vclass x = vclass z) by lia. rewrite Exz, Z.compare_refl.
    destruct x, y, z; cbn [vclass] in *; try lia; try congruence.
    all: try (rewrite !collate_cmp_key; apply bytes_cmp_trans).
    all: try apply bytes_cmp_trans.
    all: match goal with
         | |- context [num_of ?a] => idtac
         end.
    all: repeat match goal with
         | |- context [num_of ?a] =>
           let H := fresh in let n := fresh "n" in
           destruct (num_of_storable a) as [n H]; [assumption|reflexivity|]; rewrite H; clear H
         end.
    all: apply num_cmp_trans.
  - intros _ _. assert (H: vclass x < vclass z) by lia. rewrite <- Z.compare_lt_iff in H. rewrite H. congruence.
  - intros _ _. assert (H: vclass x < vclass z) by lia. rewrite <- Z.compare_lt_iff in H. rewrite H. congruence.
  - intros _ _. assert (H: vclass x < vclass z) by lia. rewrite <- Z.compare_lt_iff in H. rewrite H. congruence.
Qed.

(* ---------- compare() computes the order ---------- *)
Lemma of_cmp_opp c : of_cmp (CompOpp c) = - of_cmp c.
Proof. destruct c; reflexivity. Qed.

Lemma fcmp_num a b : is_nan a = false -> is_nan b = false ->
  exists x y, num_of (VReal a) = Some x /\ num_of (VReal b) = Some y /\ fcmp a b = Some (num_cmp x y).
Proof.
  intros Ha Hb. unfold fcmp. cbn [num_of]. rewrite Ha, Hb. cbn [orb].
  destruct (is_inf a) eqn:Ia; destruct (is_inf b) eqn:Ib.
  - destruct (fsign a), (fsign b); do 2 eexists; repeat split; reflexivity.
  - destruct (fsign a); do 2 eexists; repeat split; reflexivity.
  - destruct (fsign b); do 2 eexists; repeat split; reflexivity.
  - do 2 eexists. repeat split.
Qed.

(* values of the same kind, or of different storage classes: everything but
   the integer/real pairs (those are Proofs/IntRealP.v) *)
Definition mixed (a b : value) : bool :=
  match a, b with VInt _, VReal _ | VReal _, VInt _ => true | _, _ => false end.

Theorem compare_spec_unmixed c a b : storable a -> storable b -> mixed a b = false ->
  compare a b c = of_cmp (s_cmp c a b).
Proof.
  intros Sa Sb Hm. destruct a, b; cbn [mixed] in Hm; try discriminate; cbn [compare]; unfold s_cmp; cbn [vclass Z.compare Pos.compare Pos.compare_cont CompOpp];
    try reflexivity.
  - cbn [num_of num_cmp]. unfold dy_cmp. cbn [Z.min]. rewrite Z.min_id, Z.sub_diag, !Z.mul_1_r. reflexivity.
  - cbn in Sa, Sb. destruct Sa as [_ Na], Sb as [_ Nb].
    destruct (fcmp_num bits bits0 Na Nb) as (x & y & Hx & Hy & Hf). rewrite Hx, Hy.
    unfold cmp_float64. rewrite Hf. destruct (num_cmp x y); reflexivity.
Qed.

(* ---------- Equals and Search against the key order ---------- *)
(* [agrees k r]: compare() computes the order on every pair the key meets *)
Fixpoint agrees (k : key) (r : record) : Prop :=
  match k, r with
  | kc :: k', v :: r' => compare (kv kc) v (kcoll kc) = of_cmp (s_cmp (kcoll kc) (kv kc) v) /\ agrees k' r'
  | _, _ => True
  end.

Theorem equals_kcmp k : forall r, agrees k r ->
  equals k r = match kcmp k r with Eq => true | _ => false end.
Proof.
  induction k as [|kc k IH]; intros [|v r]; cbn [equals kcmp agrees]; try reflexivity.
  intros [Hc Ha]. rewrite Hc. rewrite (s_cmp_antisym (kcoll kc) (kv kc) v).
  destruct (s_cmp (kcoll kc) (kv kc) v); destruct (kdesc kc); cbn; auto.
Qed.

Theorem search_kcmp k : forall r, agrees k r ->
  search k r = match kcmp k r with Lt => false | _ => true end.
Proof.
  induction k as [|kc k IH]; intros [|v r]; cbn [search kcmp agrees]; try reflexivity.
  intros [Hc Ha]. rewrite Hc. rewrite (s_cmp_antisym (kcoll kc) (kv kc) v).
  destruct (s_cmp (kcoll kc) (kv kc) v); destruct (kdesc kc); cbn; auto.
Qed.

(* equal on the key's columns implies not less than the key *)
Corollary equals_search k r : agrees k r -> equals k r = true -> search k r = true.
Proof.
  intros Ha. rewrite (equals_kcmp k r Ha), (search_kcmp k r Ha). destruct (kcmp k r); congruence.
Qed.
