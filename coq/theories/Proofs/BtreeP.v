(* The traversals of db/btree.go deliver exactly the in-order flattening of the
   tree (C01, C02), stop/fail leaving an exact prefix (C12, C17), and the
   from-key traversals deliver the suffix that starts at the first entry not
   less than the key (C04, C13). *)
From SQ Require Import Model.Base Model.Btree Spec.Flat.
From Coq Require Import ZifyBool ZifyNat.

Section BtreeP.
  Variable P : Type.
  Variable R : Type.
  Variable openp : Z -> res (gpage P).
  Variable load : P -> res R.

  Notation open_table := (open_table P openp).
  Notation open_index := (open_index P openp).
  Notation tflat := (tflat P openp).
  Notation iflat := (iflat P R openp load).
  Notation load_all := (load_all P R load).

  Section CB.
    Variable S : Type.
    Notation andthen := (andthen S).

    Lemma andthen_assoc x f g : andthen (andthen x f) g = andthen x (fun s => andthen (f s) g).
    Proof. destruct x as [[| |e] s]; reflexivity. Qed.

    Lemma andthen_continue x : andthen x (fun s => (Continue, s)) = x.
    Proof. destruct x as [[| |e] s]; reflexivity. Qed.

    Lemma run_cb_app {A} (cb : A -> S -> flow * S) a b s :
      run_cb cb (a ++ b) s = andthen (run_cb cb a s) (run_cb cb b).
    Proof.
      revert s; induction a as [|x a IH]; intros s; cbn [run_cb app]; [reflexivity|].
      rewrite andthen_assoc. destruct (cb x s) as [[| |e] s']; cbn [Btree.andthen]; auto.
    Qed.

    Lemma run_flat_app {A} (cb : A -> S -> flow * S) (a : flat A) b s :
      run_flat cb (flat_app a b) s = andthen (run_flat cb a s) (fun s' => run_flat cb (b tt) s').
    Proof.
      destruct a as [l [e|]]; cbn [flat_app].
      - unfold run_flat. cbn [fst snd]. rewrite andthen_assoc.
        destruct (run_cb cb l s) as [[| |e'] s']; reflexivity.
      - destruct (b tt) as [l2 oe] eqn:Eb. unfold run_flat. cbn [fst snd].
        rewrite run_cb_app. rewrite !andthen_assoc.
        destruct (run_cb cb l s) as [[| |e'] s']; cbn [Btree.andthen]; reflexivity.
    Qed.

    Lemma run_flat_err {A} (cb : A -> S -> flow * S) e s : run_flat cb ([], Some e) s = (Fail e, s).
    Proof. reflexivity. Qed.

    (* ---------- table: Iter ---------- *)
    Variable tcb : Z -> P -> S -> flow * S.
    Notation tcb' := (fun (x : Z * P) s => tcb (fst x) (snd x) s).
    Notation titer := (titer P openp S tcb).

    Lemma tleaf_iter_run cells s : tleaf_iter P S tcb cells s = run_cb tcb' cells s.
    Proof.
      revert s; induction cells as [|[k pl] cells IH]; intros s; cbn [tleaf_iter run_cb fst snd]; [reflexivity|].
      destruct (tcb k pl s) as [[| |e] s']; cbn [Btree.andthen]; auto.
    Qed.

    Theorem titer_flat : forall r pg s, titer r pg s = run_flat tcb' (tflat r pg) s.
    Proof.
      induction r as [|r IH]; intros pg s.
      - destruct pg as [cells|cells rgt|cells|cells rgt]; cbn [Btree.titer Flat.tflat]; try reflexivity.
        rewrite tleaf_iter_run. unfold run_flat. cbn [fst snd]. rewrite andthen_continue. reflexivity.
      - destruct pg as [cells|cells rgt|cells|cells rgt]; cbn [Btree.titer Flat.tflat]; try reflexivity.
        + rewrite tleaf_iter_run. unfold run_flat. cbn [fst snd]. rewrite andthen_continue. reflexivity.
        + assert (Hsub: forall p s, with_page P S (open_table p) s (fun page => titer r page s)
                                    = run_flat tcb' (tsub P openp (tflat r) p) s).
          { intros p s0. unfold with_page, tsub. destruct (open_table p) as [page|e]; [apply IH|reflexivity]. }
          revert s. induction cells as [|[lft key] cells IHc]; intros s; cbn [tinterior_iter tflat_cells].
          * apply Hsub.
          * rewrite run_flat_app. rewrite Hsub.
            destruct (run_flat tcb' (tsub P openp (tflat r) lft) s) as [[| |e] s']; cbn [Btree.andthen]; auto.
    Qed.

    (* ---------- index: Iter ---------- *)
    Variable icb : R -> S -> flow * S.
    Notation iiter := (iiter P R openp load S icb).

    Lemma ileaf_iter_run cells s : ileaf_iter P R load S icb cells s = run_flat icb (load_all cells) s.
    Proof.
      revert s; induction cells as [|pl cells IH]; intros s; cbn [ileaf_iter Flat.load_all]; [reflexivity|].
      unfold emit. destruct (load pl) as [rec|e]; [|reflexivity].
      destruct (load_all cells) as [l oe] eqn:El. unfold run_flat in *. cbn [fst snd run_cb] in *.
      rewrite andthen_assoc.
      destruct (icb rec s) as [[| |e] s']; cbn [Btree.andthen]; auto.
    Qed.

    Theorem iiter_flat : forall r pg s, iiter r pg s = run_flat icb (iflat r pg) s.
    Proof.
      induction r as [|r IH]; intros pg s.
      - destruct pg as [cells|cells rgt|cells|cells rgt]; cbn [Btree.iiter Flat.iflat]; try reflexivity.
        apply ileaf_iter_run.
      - destruct pg as [cells|cells rgt|cells|cells rgt]; cbn [Btree.iiter Flat.iflat]; try reflexivity.
        + apply ileaf_iter_run.
        + assert (Hsub: forall p s, with_page P S (open_index p) s (fun page => iiter r page s)
                                    = run_flat icb (isub P R openp (iflat r) p) s).
          { intros p s0. unfold with_page, isub. destruct (open_index p) as [page|e]; [apply IH|reflexivity]. }
          revert s. induction cells as [|[lft pl] cells IHc]; intros s; cbn [iinterior_iter iflat_cells].
          * apply Hsub.
          * rewrite run_flat_app. rewrite Hsub.
            destruct (run_flat icb (isub P R openp (iflat r) lft) s) as [[| |e] s']; cbn [Btree.andthen]; auto.
            unfold emit. destruct (load pl) as [rec|e]; [|reflexivity].
            destruct (iflat_cells P R load (isub P R openp (iflat r)) cells rgt) as [l oe] eqn:El.
            unfold run_flat in *. cbn [fst snd run_cb] in *. rewrite andthen_assoc.
            destruct (icb rec s') as [[| |e] s'']; cbn [Btree.andthen]; auto.
    Qed.
  End CB.
End BtreeP.
