(* C10: invariants of Model/Schema.v's newCreateTable over every statement the
   parser can produce (every AST value, in fact): a WITHOUT ROWID table has no
   rowid alias, a rowid table no primary key column list, and the indexes
   created for constraints are pairwise non-redundant under SQLite's relation
   (same columns, same collations; sort order irrelevant) - merging is complete. *)
From Coq Require Import ZArith List String Bool.
From SQ Require Import Model.SqlParse Model.Schema.
Import ListNotations.

(* ---- SQLite's redundancy relation is an equivalence ---- *)
Lemma same_refl a : same_index_columns a a = true.
Proof.
  induction a as [|x a IH]; cbn [same_index_columns]; [reflexivity|].
  unfold eq_fold. rewrite !String.eqb_refl, IH. reflexivity.
Qed.
Lemma same_sym a : forall b, same_index_columns a b = same_index_columns b a.
Proof.
  induction a as [|x a IH]; intros [|y b]; cbn [same_index_columns]; try reflexivity.
  unfold eq_fold. rewrite (String.eqb_sym (lower_str (c_col x))), (String.eqb_sym (coll_norm (c_coll x))), IH. reflexivity.
Qed.
Lemma same_trans a : forall b c, same_index_columns a b = true -> same_index_columns b c = true -> same_index_columns a c = true.
Proof.
  induction a as [|x a IH]; intros [|y b] [|z c]; cbn [same_index_columns]; try discriminate; auto.
  unfold eq_fold. intros H1 H2.
  apply andb_true_iff in H1. destruct H1 as [H1 H1c]. apply andb_true_iff in H1. destruct H1 as [H1a H1b].
  apply andb_true_iff in H2. destruct H2 as [H2 H2c]. apply andb_true_iff in H2. destruct H2 as [H2a H2b].
  apply String.eqb_eq in H1a, H1b, H2a, H2b. rewrite H1a, H2a, H1b, H2b, !String.eqb_refl. cbn [andb].
  eapply IH; eassumption.
Qed.

(* pairwise non-redundant *)
Fixpoint distinct_ix (ix : list sindexS) : Prop :=
  match ix with
  | [] => True
  | i :: r => (forall j, In j r -> same_index_columns (i_cols i) (i_cols j) = false) /\ distinct_ix r
  end.

Lemma distinct_app_one ix i : distinct_ix ix -> (forall j, In j ix -> same_index_columns (i_cols j) (i_cols i) = false) ->
  distinct_ix (ix ++ [i]).
Proof.
  induction ix as [|x ix IH]; intros Hd Hn; cbn [app distinct_ix]; [split; [intros j []|exact I]|].
  destruct Hd as [Hx Hd]. split.
  - intros j Hj. apply in_app_or in Hj. destruct Hj as [Hj|[<-|[]]]; [apply Hx; exact Hj|apply Hn; left; reflexivity].
  - apply IH; [exact Hd|]. intros j Hj. apply Hn. right. exact Hj.
Qed.

Lemma take_same_spec ix cols f rest : take_same ix cols = Some (f, rest) ->
  (forall j, In j rest -> In j ix) /\ (distinct_ix ix -> distinct_ix rest).
Proof.
  revert f rest. induction ix as [|i ix IH]; intros f rest H; cbn [take_same] in H; [discriminate|].
  destruct (same_index_columns (i_cols i) cols).
  - inversion H; subst. split; [intros j Hj; right; exact Hj|intros [_ Hd]; exact Hd].
  - destruct (take_same ix cols) as [[f' r']|] eqn:E; [|discriminate]. inversion H; subst.
    destruct (IH f r' eq_refl) as [Hin Hd]. split.
    + intros j [<-|Hj]; [left; reflexivity|right; apply Hin; exact Hj].
    + intros [Hi Hdx]. cbn [distinct_ix]. split; [intros j Hj; apply Hi; apply Hin; exact Hj|apply Hd; exact Hdx].
Qed.

Lemma find_none_all {A} (p : A -> bool) l : find p l = None -> forall x, In x l -> p x = false.
Proof.
  induction l as [|y l IH]; intros H x []; cbn [find] in H; destruct (p y) eqn:E; try discriminate; subst; auto.
Qed.

(* the invariant of the construction *)
Record Inv (wr : bool) (st : schemaS) : Prop := {
  inv_wr : sc_wr st = wr;
  inv_alias : wr = true -> sc_rowidpk st = false /\ Forall (fun c => t_rowid c = false) (sc_cols st);
  inv_pk : wr = false -> sc_pk st = [];
  inv_distinct : distinct_ix (sc_indexes st) }.

Lemma add_index_inv wr st pk name cols : Inv wr st -> Inv wr (fst (add_index st pk name cols)).
Proof.
  intros [Hw Ha Hp Hd]. unfold add_index. destruct (same_index_columns (sc_pk st) cols); [constructor; assumption|].
  destruct (find (fun i => same_index_columns (i_cols i) cols) (sc_indexes st)) as [i|] eqn:Ef; cbn [fst].
  - destruct pk; constructor; cbn; assumption.
  - pose proof (find_none_all _ _ Ef) as Hn.
    assert (Hd' : distinct_ix (sc_indexes st ++ [{| i_name := name; i_cols := cols |}])) by (apply distinct_app_one; [exact Hd|intros j Hj; cbn; apply Hn; exact Hj]).
    destruct pk; constructor; cbn; assumption.
Qed.

Lemma set_pk_inv st cols : Inv true st -> Inv true (fst (set_pk st cols)).
Proof.
  intros [Hw Ha Hp Hd]. unfold set_pk. destruct (take_same (sc_indexes st) cols) as [[i rest]|] eqn:E; cbn [fst].
  - destruct (take_same_spec _ _ _ _ E) as [_ Hdr]. constructor; cbn; auto. discriminate.
  - constructor; cbn; auto. discriminate.
Qed.

Lemma late_unique_inv wr s cols : (n_late s = true -> wr = true) -> Inv wr (n_st s) -> Inv wr (n_st (late_unique s cols)).
Proof.
  intros Hl [Hw Ha Hp Hd]. unfold late_unique. destruct (n_late s && same_index_columns (sc_pk (n_st s)) cols) eqn:E; [|constructor; assumption].
  apply andb_true_iff in E. destruct E as [E _]. specialize (Hl E). subst wr. constructor; cbn; auto. discriminate.
Qed.

Lemma late_unique_late s cols : n_late (late_unique s cols) = true -> n_late s = true.
Proof. unfold late_unique. destruct (n_late s && _) eqn:E; cbn; [discriminate|auto]. Qed.

(* state invariant incl. "late only for WITHOUT ROWID" *)
Definition SInv (wr : bool) (s : nct) : Prop := Inv wr (n_st s) /\ (n_late s = true -> wr = true).

Lemma set_cols_app_inv wr st col : Inv wr st -> (wr = true -> t_rowid col = false) -> Inv wr (set_cols st (sc_cols st ++ [col])).
Proof.
  intros [Hw Ha Hp Hd] Hc. constructor; cbn; auto. intros E. destruct (Ha E) as [A B]. split; [exact A|].
  apply Forall_app. split; [exact B|]. constructor; [apply Hc; exact E|constructor].
Qed.

Lemma nct_column_inv wr s c : SInv wr s -> SInv wr (nct_column wr s c).
Proof.
  intros [HI HL]. unfold nct_column.
  set (fs := fields_of c). set (name := str_of (field "Name" fs)). set (typ := str_of (field "Type" fs)).
  set (coll := str_of (field "Collate" fs)). set (pk := bool_of (field "PrimaryKey" fs)). set (pkdesc := desc_of (field "PrimaryKeyDir" fs)).
  cbv zeta.
  (* after the PRIMARY KEY part *)
  match goal with |- SInv wr {| n_st := set_cols (n_st ?S2) _; n_auto := _; n_late := _ |} => set (s2 := S2) end.
  assert (H2 : SInv wr s2).
  { subst s2.
    match goal with |- SInv wr (if bool_of _ then _ else ?S1) => set (s1 := S1) end.
    assert (H1 : SInv wr s1).
    { subst s1. destruct pk; [|split; assumption]. destruct wr.
      - destruct (set_pk (n_st s) _) as [st' merged] eqn:E.
        assert (Hst : Inv true st') by (replace st' with (fst (set_pk (n_st s) [{| c_col := name; c_expr := ""; c_coll := coll; c_desc := pkdesc |}])) by (rewrite E; reflexivity); apply set_pk_inv; exact HI).
        destruct merged; [split; cbn; auto|]. destruct (is_rowid false typ pkdesc); split; cbn; auto.
      - cbn [negb andb]. destruct (is_rowid false typ pkdesc).
        + split; cbn; [|exact HL]. destruct HI as [Hw Ha Hp Hd]. constructor; cbn; auto. discriminate.
        + destruct (add_index (n_st s) true _ _) as [st' added] eqn:E.
          assert (Hst : Inv false st') by (match type of E with add_index ?a ?b ?c ?d = _ => replace st' with (fst (add_index a b c d)) by (rewrite E; reflexivity) end; apply add_index_inv; exact HI).
          split; cbn; auto. }
    destruct (bool_of (field "Unique" fs)); [|exact H1].
    destruct H1 as [HI1 HL1].
    pose proof (late_unique_inv wr s1 [{| c_col := name; c_expr := ""; c_coll := coll; c_desc := false |}] HL1 HI1) as HI2.
    destruct (add_index (n_st (late_unique s1 _)) false _ _) as [st' added] eqn:E.
    assert (Hst : Inv wr st') by (match type of E with add_index ?a ?b ?c ?d = _ => replace st' with (fst (add_index a b c d)) by (rewrite E; reflexivity) end; apply add_index_inv; exact HI2).
    split; cbn; auto. intros G. apply HL1. eapply late_unique_late. exact G. }
  destruct H2 as [HI2 HL2]. split; cbn; [|exact HL2].
  apply set_cols_app_inv; [exact HI2|]. intros ->. cbn. destruct pk; reflexivity.
Qed.

Lemma update_nth_forall {A} (P : A -> Prop) f : (forall x, P x -> P (f x)) -> forall n l, Forall P l -> Forall P (update_nth n f l).
Proof.
  intros Hf n l. revert n. induction l as [|x l IH]; intros n H; destruct n; cbn [update_nth]; auto; inversion H; subst; constructor; auto.
Qed.

Lemma nct_constraint_inv wr s c : SInv wr s -> SInv wr (nct_constraint wr s c).
Proof.
  intros [HI HL]. unfold nct_constraint.
  destruct c as [| | | | | | |n fs]; try (split; assumption).
  destruct (String.eqb n "TablePrimaryKey") eqn:En.
  - cbv zeta.
    match goal with |- SInv wr (match ?A with Some _ => _ | None => _ end) => destruct A as [i|] eqn:Ea end.
    + (* rowid alias: only reachable when wr = false *)
      destruct wr; [discriminate Ea|]. split; cbn; [|exact HL]. destruct HI as [Hw Ha Hp Hd]. constructor; cbn; auto. discriminate.
    + destruct wr.
      * match goal with |- SInv true (let '(st2, merged) := set_pk ?ST ?PK in _) => destruct (set_pk ST PK) as [st2 merged] eqn:E; set (st1 := ST) in * end.
        assert (H1 : Inv true st1).
        { subst st1. destruct HI as [Hw Ha Hp Hd]. constructor; cbn; auto. intros _. destruct (Ha eq_refl) as [A B]. split; [exact A|].
          clear -B. set (ics := list_of (field "IndexedColumns" fs)). generalize (sc_cols (n_st s)) B. clear B.
          induction ics as [|v ics IH]; intros cols B; cbn [fold_left]; [exact B|]. apply IH.
          destruct (find_col cols _ 0) as [[j ?]|]; [|exact B]. apply update_nth_forall; [|exact B]. intros x Hx. cbn. exact Hx. }
        assert (H2 : Inv true st2).
        { match type of E with set_pk ?a ?b = _ => replace st2 with (fst (set_pk a b)) by (rewrite E; reflexivity) end. apply set_pk_inv. exact H1. }
        split; cbn.
        -- destruct H2 as [Hw Ha Hp Hd]. constructor; cbn; auto. discriminate.
        -- intros _. reflexivity.
      * destruct (add_index (n_st s) true _ _) as [st' added] eqn:E.
        assert (Hst : Inv false st') by (match type of E with add_index ?a ?b ?c ?d = _ => replace st' with (fst (add_index a b c d)) by (rewrite E; reflexivity) end; apply add_index_inv; exact HI).
        split; cbn; auto.
  - destruct (String.eqb n "TableUnique") eqn:Eu.
    + cbv zeta.
      set (cols := to_index_columns (n_st s) (list_of (field "IndexedColumns" fs))).
      pose proof (late_unique_inv wr s cols HL HI) as HI2.
      destruct (add_index (n_st (late_unique s cols)) false _ cols) as [st' added] eqn:E.
      assert (Hst : Inv wr st') by (match type of E with add_index ?a ?b ?c ?d = _ => replace st' with (fst (add_index a b c d)) by (rewrite E; reflexivity) end; apply add_index_inv; exact HI2).
      split; cbn; auto. intros G. apply HL. eapply late_unique_late. exact G.
    + split; assumption.
Qed.

Lemma fold_inv {A} (f : nct -> A -> nct) wr : (forall s a, SInv wr s -> SInv wr (f s a)) ->
  forall l s, SInv wr s -> SInv wr (fold_left f l s).
Proof. intros Hf. induction l as [|a l IH]; intros s H; cbn [fold_left]; [exact H|]. apply IH. apply Hf. exact H. Qed.

(* newCreateTable, for every statement value *)
Theorem new_create_table_inv ct :
  let st := new_create_table ct in
  (sc_wr st = true -> sc_rowidpk st = false /\ Forall (fun c => t_rowid c = false) (sc_cols st)) /\
  (sc_wr st = false -> sc_pk st = []) /\
  distinct_ix (sc_indexes st).
Proof.
  unfold new_create_table. cbv zeta.
  set (wr := bool_of (field "WithoutRowid" (fields_of ct))).
  match goal with |- context [fold_left (nct_constraint wr) ?L (fold_left (nct_column wr) ?C ?I)] => set (init := I); set (cs := C); set (ks := L) end.
  assert (H0 : SInv wr init).
  { subst init. split; cbn; [|discriminate]. constructor; cbn; auto. }
  pose proof (fold_inv (nct_constraint wr) wr (fun s a => nct_constraint_inv wr s a) ks _
                (fold_inv (nct_column wr) wr (fun s a => nct_column_inv wr s a) cs _ H0)) as [[Hw Ha Hp Hd] _].
  rewrite Hw. split; [intros E; apply Ha; exact E|]. split; [intros E; apply Hp; exact E|exact Hd].
Qed.
