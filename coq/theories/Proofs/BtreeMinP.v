(* From-key traversals (IterMin) of index and table b-trees *)
From SQ Require Import Model.Base Model.Btree Spec.Flat Proofs.SearchP Proofs.BtreeP.
From Coq Require Import ZifyBool ZifyNat.

Section IMin.
  Variable P : Type.
  Variable R : Type.
  Variable openp : Z -> res (gpage P).
  Variable load : P -> res R.
  Variable S : Type.
  Variable icb : R -> S -> flow * S.
  Variable pred : R -> bool.

  Notation open_index := (open_index P openp).
  Notation iflat := (iflat P R openp load).
  Notation load_all := (load_all P R load).
  Notation iflat_cells := (iflat_cells P R load).
  Notation isub := (isub P R openp).
  Notation iiter := (iiter P R openp load S icb).
  Notation iiter_min := (iiter_min P R openp load S icb pred).
  Notation andthen := (andthen S).

  (* ---- facts about load_all ---- *)
  Lemma load_all_cons pl cells rs : load_all (pl :: cells) = (rs, None) ->
    exists r rs', load pl = Ok r /\ load_all cells = (rs', None) /\ rs = r :: rs'.
  Proof.
    cbn [Flat.load_all]. destruct (load pl) as [r|e]; [|discriminate].
    destruct (load_all cells) as [l oe]. intros H. inversion H; subst. eauto.
  Qed.

  Lemma load_all_length cells rs : load_all cells = (rs, None) -> length cells = length rs.
  Proof.
    revert rs; induction cells as [|pl cells IH]; intros rs H.
    - cbn in H. inversion H. reflexivity.
    - apply load_all_cons in H. destruct H as (r & rs' & _ & H2 & ->). cbn [length]. f_equal. auto.
  Qed.

  Lemma load_all_skipn n : forall cells rs, load_all cells = (rs, None) ->
    load_all (skipn n cells) = (skipn n rs, None).
  Proof.
    induction n as [|n IH]; intros cells rs H; [exact H|].
    destruct cells as [|pl cells].
    - cbn in H. inversion H. reflexivity.
    - apply load_all_cons in H. destruct H as (r & rs' & _ & H2 & ->). cbn [skipn]. auto.
  Qed.

  Lemma load_all_firstn n : forall cells rs, load_all cells = (rs, None) ->
    load_all (firstn n cells) = (firstn n rs, None).
  Proof.
    induction n as [|n IH]; intros cells rs H; [reflexivity|].
    destruct cells as [|pl cells].
    - cbn in H. inversion H. reflexivity.
    - apply load_all_cons in H. destruct H as (r & rs' & Hl & H2 & ->). cbn [firstn Flat.load_all].
      rewrite Hl. rewrite (IH _ _ H2). reflexivity.
  Qed.

  Lemma load_all_probe cells rs : load_all cells = (rs, None) ->
    forall i, (i < length cells)%nat ->
    match nth_error cells i with Some pl => bin_search P R load pred pl | None => Ok true end
    = Ok (match nth_error rs i with Some r => pred r | None => true end).
  Proof.
    revert rs; induction cells as [|pl cells IH]; intros rs H i Hi; [cbn in Hi; lia|].
    apply load_all_cons in H. destruct H as (r & rs' & Hl & H2 & ->).
    destruct i as [|i]; cbn [nth_error].
    - unfold bin_search. rewrite Hl. reflexivity.
    - apply IH; [exact H2|cbn [length] in Hi; lia].
  Qed.

  Lemma search_cells cells rs : load_all cells = (rs, None) -> mono pred rs ->
    sort_search_e (length cells)
      (fun i => match nth_error cells i with Some pl => bin_search P R load pred pl | None => Ok true end)
    = (nfalse pred rs, None).
  Proof.
    intros Hl Hm. unfold sort_search_e.
    rewrite (search_fuel_e_pure _ (fun i => match nth_error rs i with Some r => pred r | None => true end) (length cells));
      [|intros x Hx; apply load_all_probe; assumption|lia].
    f_equal. rewrite (load_all_length _ _ Hl). apply sort_search_mono. exact Hm.
  Qed.

  (* ---- leaf ---- *)
  Lemma ileaf_iter_min_ok cells rs s : load_all cells = (rs, None) -> mono pred rs ->
    ileaf_iter_min P R load S icb pred cells s = run_cb icb (drop_lt pred rs) s.
  Proof.
    intros Hl Hm. unfold ileaf_iter_min. rewrite (search_cells _ _ Hl Hm).
    rewrite ileaf_iter_run. rewrite (load_all_skipn _ _ _ Hl). rewrite skipn_nfalse.
    unfold run_flat. cbn [fst snd]. apply andthen_continue.
  Qed.

  (* ---- interior: structure of the flattening ---- *)
  Lemma iflat_cells_cons sub lft pl rest rgt l :
    iflat_cells sub ((lft, pl) :: rest) rgt = (l, None) ->
    exists a k b, sub lft = (a, None) /\ load pl = Ok k /\ iflat_cells sub rest rgt = (b, None) /\ l = a ++ k :: b.
  Proof.
    cbn [Flat.iflat_cells]. destruct (sub lft) as [a [e|]]; cbn [flat_app]; [discriminate|].
    destruct (load pl) as [k|e]; [|discriminate].
    destruct (iflat_cells sub rest rgt) as [b oe]. intros H. inversion H; subst. eauto 10.
  Qed.

  Lemma iflat_cells_recs sub cells rgt l : iflat_cells sub cells rgt = (l, None) ->
    exists ks, load_all (map snd cells) = (ks, None) /\ incl ks l.
  Proof.
    revert l; induction cells as [|[lft pl] cells IH]; intros l H.
    - exists []. split; [reflexivity|]. intros x [].
    - apply iflat_cells_cons in H. destruct H as (a & k & b & Ha & Hk & Hb & ->).
      destruct (IH _ Hb) as (ks & Hks & Hincl). exists (k :: ks). split.
      + cbn [map snd Flat.load_all]. rewrite Hk, Hks. reflexivity.
      + intros x [<-|Hx]; apply in_or_app; right; [left; reflexivity|right; apply Hincl; exact Hx].
  Qed.

  Lemma iflat_cells_mono sub cells rgt l ks :
    iflat_cells sub cells rgt = (l, None) -> load_all (map snd cells) = (ks, None) ->
    mono pred l -> mono pred ks.
  Proof.
    revert l ks; induction cells as [|[lft pl] cells IH]; intros l ks H Hks Hm.
    - cbn in Hks. inversion Hks; subst. exists [], []. repeat split; constructor.
    - apply iflat_cells_cons in H. destruct H as (a & k & b & Ha & Hk & Hb & ->).
      cbn [map snd] in Hks. apply load_all_cons in Hks. destruct Hks as (k' & ks' & Hk' & Hks' & ->).
      rewrite Hk in Hk'. inversion Hk'; subst k'.
      assert (Hmb: mono pred b).
      { apply mono_app_r in Hm. eapply mono_cons_false. exact Hm. }
      specialize (IH _ _ Hb Hks' Hmb).
      destruct (pred k) eqn:Ep.
      + pose proof (mono_true_suffix _ pred _ _ _ Hm Ep) as Hbt.
        destruct (iflat_cells_recs _ _ _ _ Hb) as (ks2 & Hks2 & Hincl).
        rewrite Hks' in Hks2. inversion Hks2; subst ks2.
        exists [], (k :: ks'). split; [reflexivity|]. split; [constructor|].
        constructor; [exact Ep|]. unfold allt in *. rewrite Forall_forall in *. auto.
      + destruct IH as (lo & hi & -> & Hlo & Hhi). exists (k :: lo), hi.
        split; [reflexivity|]. split; [constructor; assumption|assumption].
  Qed.

  (* splitting the cells of an interior page *)
  Lemma iflat_cells_split sub pre : forall post rgt l,
    iflat_cells sub (pre ++ post) rgt = (l, None) ->
    exists lp lq kp, l = lp ++ lq /\ iflat_cells sub post rgt = (lq, None) /\
                     load_all (map snd pre) = (kp, None) /\
                     (kp = [] -> lp = []) /\
                     (forall kp' k, kp = kp' ++ [k] -> exists lp', lp = lp' ++ [k]).
  Proof.
    induction pre as [|[lft pl] pre IH]; intros post rgt l H.
    - exists [], l, []. cbn [app] in *. repeat split; auto.
      intros kp' k E. destruct kp'; discriminate.
    - cbn [app] in H. apply iflat_cells_cons in H. destruct H as (a & k & b & Ha & Hk & Hb & ->).
      destruct (IH _ _ _ Hb) as (lp & lq & kp & -> & Hq & Hkp & Hnil & Hlast).
      exists (a ++ k :: lp), lq, (k :: kp). repeat split.
      + rewrite <- app_assoc. reflexivity.
      + exact Hq.
      + cbn [map snd Flat.load_all]. rewrite Hk, Hkp. reflexivity.
      + discriminate.
      + intros kp' k' E. destruct kp' as [|k0 kp'].
        * cbn in E. inversion E; subst. rewrite (Hnil eq_refl). exists a. reflexivity.
        * cbn in E. inversion E; subst. destruct (Hlast _ _ eq_refl) as (lp' & ->).
          exists (a ++ k0 :: lp'). rewrite <- app_assoc. reflexivity.
  Qed.

  Lemma iinterior_iter_flat r cells rgt s :
    iinterior_iter P R load S icb (fun p s => with_page P S (open_index p) s (fun page => iiter r page s)) cells rgt s
    = run_flat icb (iflat_cells (isub (iflat r)) cells rgt) s.
  Proof.
    pose proof (iiter_flat P R openp load S icb (Datatypes.S r) (GIInterior cells rgt) s) as H.
    cbn [Btree.iiter Flat.iflat] in H. exact H.
  Qed.

  Lemma isub_ok f p l : isub f p = (l, None) -> exists page, open_index p = Ok page /\ f page = (l, None).
  Proof. unfold Flat.isub. destruct (open_index p) as [page|e]; [eauto|discriminate]. Qed.

  Lemma allf_snoc (l : list R) k : allf pred l -> pred k = false -> allf pred (l ++ [k]).
  Proof. intros Hl Hk. apply Forall_app. split; [exact Hl|]. constructor; [exact Hk|constructor]. Qed.

  Lemma last_firstn_nfalse (ks : list R) kp' k :
    firstn (nfalse pred ks) ks = kp' ++ [k] -> pred k = false.
  Proof.
    intros E. pose proof (firstn_nfalse_allf _ pred ks) as H. rewrite E in H.
    apply Forall_app in H. destruct H as [_ H]. inversion H; assumption.
  Qed.

  Theorem iiter_min_flat : forall r pg l s,
    iflat r pg = (l, None) -> mono pred l ->
    iiter_min r pg s = run_cb icb (drop_lt pred l) s.
  Proof.
    induction r as [|r IH]; intros pg l s Hfl Hm.
    - destruct pg as [cells|cells rgt|cells|cells rgt]; cbn [Btree.iiter_min Flat.iflat] in *; try discriminate.
      apply ileaf_iter_min_ok; assumption.
    - destruct pg as [cells|cells rgt|cells|cells rgt]; cbn [Btree.iiter_min Flat.iflat] in *; try discriminate.
      + apply ileaf_iter_min_ok; assumption.
      + destruct (iflat_cells_recs _ _ _ _ Hfl) as (ks & Hks & _).
        pose proof (iflat_cells_mono _ _ _ _ _ Hfl Hks Hm) as Hmk.
        unfold iinterior_iter_min.
        assert (Hprobe: forall i,
          match nth_error cells i with Some (_, pl) => bin_search P R load pred pl | None => Ok true end
          = match nth_error (map snd cells) i with Some pl => bin_search P R load pred pl | None => Ok true end).
        { intros i. rewrite nth_error_map. destruct (nth_error cells i) as [[? ?]|]; reflexivity. }
        assert (Hsearch':
          sort_search_e (length cells)
            (fun i => match nth_error cells i with Some (_, pl) => bin_search P R load pred pl | None => Ok true end)
          = (nfalse pred ks, None)).
        { unfold sort_search_e.
          rewrite (search_fuel_e_pure _ (fun i => match nth_error ks i with Some r => pred r | None => true end) (length cells));
            [| |lia].
          - f_equal. rewrite <- (map_length snd cells). rewrite (load_all_length _ _ Hks).
            apply sort_search_mono. exact Hmk.
          - intros x Hx. rewrite Hprobe. apply load_all_probe; [exact Hks|rewrite map_length; exact Hx]. }
        rewrite Hsearch'.
        set (n := nfalse pred ks).
        rewrite <- (firstn_skipn n cells) in Hfl.
        destruct (iflat_cells_split _ _ _ _ _ Hfl) as (lp & lq & kp & -> & Hq & Hkp & Hnil & Hlast).
        rewrite <- firstn_map in Hkp. rewrite (load_all_firstn n _ _ Hks) in Hkp. inversion Hkp as [Hkp']. clear Hkp.
        (* everything delivered by the skipped cells is below the key *)
        assert (Hlpf: allf pred lp).
        { destruct (firstn n ks) as [|k0 kp0] eqn:Ekp.
          - rewrite (Hnil (eq_sym Hkp')). constructor.
          - destruct (@exists_last _ (k0 :: kp0) ltac:(discriminate)) as (kp' & k & Ek).
            rewrite Ek in Ekp. subst kp. destruct (Hlast _ _ Ek) as (lp' & ->).
            pose proof (last_firstn_nfalse ks kp' k Ekp) as Hkf.
            rewrite <- app_assoc in Hm. cbn [app] in Hm.
            apply allf_snoc; [|exact Hkf]. eapply mono_false_prefix; eauto. }
        rewrite (drop_lt_allf _ pred _ _ Hlpf).
        pose proof (mono_app_r _ pred _ _ Hm) as Hmq.
        destruct (skipn n cells) as [|[lft pl] rest] eqn:Epost.
        * cbn [Flat.iflat_cells] in Hq. apply isub_ok in Hq. destruct Hq as (page & Hop & Hpf).
          unfold with_page. rewrite Hop. apply IH; assumption.
        * apply iflat_cells_cons in Hq. destruct Hq as (a & k & b & Ha & Hk & Hb & ->).
          apply isub_ok in Ha. destruct Ha as (page & Hop & Hpf).
          unfold with_page at 1. rewrite Hop.
          rewrite (IH _ _ _ Hpf (mono_app_l _ pred _ _ Hmq)).
          (* the cell found by the search is not below the key *)
          assert (Hkt: pred k = true).
          { assert (Hsk: exists tl, skipn n ks = k :: tl).
            { pose proof (load_all_skipn n _ _ Hks) as Hs. rewrite skipn_map in Hs. rewrite Epost in Hs.
              cbn [map snd Flat.load_all] in Hs. rewrite Hk in Hs.
              destruct (load_all (map snd rest)) as [l0 oe0]. inversion Hs; subst. eauto. }
            destruct Hsk as (tl & Hsk).
            unfold n in Hsk. rewrite skipn_nfalse in Hsk. eapply drop_lt_head_true; eauto. }
          assert (Hd: drop_lt pred (a ++ k :: b) = drop_lt pred a ++ k :: b).
          { clear -Hkt. induction a as [|y a IHa]; cbn [drop_lt app]; [rewrite Hkt; reflexivity|].
            destruct (pred y); [reflexivity|exact IHa]. }
          rewrite Hd. rewrite run_cb_app.
          destruct (run_cb icb (drop_lt pred a) s) as [[| |e] s']; cbn [Btree.andthen]; try reflexivity.
          unfold emit. rewrite Hk. cbn [run_cb].
          destruct (icb k s') as [[| |e] s'']; cbn [Btree.andthen]; try reflexivity.
          rewrite iinterior_iter_flat. rewrite Hb. unfold run_flat. cbn [fst snd]. apply andthen_continue.
  Qed.
End IMin.

(* ---------------- table trees: lookup by rowid ---------------- *)
Section TMin.
  Variable P : Type.
  Variable openp : Z -> res (gpage P).
  Variable S : Type.
  Variable tcb : Z -> P -> S -> flow * S.
  Variable rowid : Z.
  (* the callbacks of Table.Rowid never ask to continue *)
  Hypothesis tcb_stops : forall k pl s, fst (tcb k pl s) <> Continue.

  Notation open_table := (open_table P openp).
  Notation tflat := (tflat P openp).
  Notation tflat_cells := (tflat_cells P).
  Notation tsub := (tsub P openp).
  Notation titer_min := (titer_min P openp S tcb).
  Notation andthen := (andthen S).

  Definition tpred (x : Z * P) : bool := rowid <=? fst x.
  Definition kpred (k : Z) : bool := rowid <=? k.

  Definition tmin_spec (l : list (Z * P)) (s : S) : flow * S :=
    match drop_lt tpred l with [] => (Continue, s) | x :: _ => tcb (fst x) (snd x) s end.

  (* the separator keys are ordered and bound the rowids of their left
     subtrees - as far as this rowid can tell *)
  Fixpoint sep_ok (r : nat) (pg : gpage P) {struct r} : Prop :=
    match pg with
    | GTInterior cells rgt =>
      match r with
      | O => True
      | Datatypes.S r' =>
        mono kpred (map snd cells) /\
        (forall lft key, In (lft, key) cells -> forall page, open_table lft = Ok page ->
           (kpred key = false -> allf tpred (fst (tflat r' page))) /\ sep_ok r' page) /\
        (forall page, open_table rgt = Ok page -> sep_ok r' page)
      end
    | _ => True
    end.

  Lemma tmin_spec_app_nil a b s : drop_lt tpred a = [] -> tmin_spec (a ++ b) s = tmin_spec b s.
  Proof. intros H. unfold tmin_spec. rewrite drop_lt_allf; [reflexivity|]. apply drop_lt_nil_allf. exact H. Qed.

  Lemma tmin_spec_app_cons a b s x r : drop_lt tpred a = x :: r -> tmin_spec (a ++ b) s = tmin_spec a s.
  Proof. intros H. unfold tmin_spec. rewrite (drop_lt_cons_app _ _ _ _ _ b H). rewrite H. reflexivity. Qed.

  Lemma tleaf_iter_min_ok cells s : mono tpred cells ->
    tleaf_iter_min P S tcb cells rowid s = tmin_spec cells s.
  Proof.
    intros Hm. unfold tleaf_iter_min, tmin_spec.
    assert (E: sort_search (length cells)
                 (fun i => match nth_error cells i with Some (k, _) => rowid <=? k | None => true end)
               = nfalse tpred cells).
    { rewrite <- (sort_search_mono _ tpred cells Hm). unfold sort_search. apply search_fuel_ext.
      intros x. destruct (nth_error cells x) as [[k pl]|]; reflexivity. }
    rewrite E, skipn_nfalse. destruct (drop_lt tpred cells) as [|[k pl] rest]; reflexivity.
  Qed.

  Lemma tflat_cells_cons sub lft key rest rgt l :
    tflat_cells sub ((lft, key) :: rest) rgt = (l, None) ->
    exists a b, sub lft = (a, None) /\ tflat_cells sub rest rgt = (b, None) /\ l = a ++ b.
  Proof.
    cbn [Flat.tflat_cells]. destruct (sub lft) as [a [e|]]; cbn [flat_app]; [discriminate|].
    destruct (tflat_cells sub rest rgt) as [b oe]. intros H. inversion H; subst. eauto.
  Qed.

  Lemma tsub_ok f p l : tsub f p = (l, None) -> exists page, open_table p = Ok page /\ f page = (l, None).
  Proof. unfold Flat.tsub. destruct (open_table p) as [page|e]; [eauto|discriminate]. Qed.

  Section Step.
    Variable r : nat.
    Hypothesis IH : forall pg l s, tflat r pg = (l, None) -> mono tpred l -> sep_ok r pg ->
                                   titer_min r pg rowid s = tmin_spec l s.
    Let sub := fun p s => with_page P S (open_table p) s (fun page => titer_min r page rowid s).

    Lemma sub_ok p l s : tsub (tflat r) p = (l, None) -> mono tpred l ->
      (forall page, open_table p = Ok page -> sep_ok r page) -> sub p s = tmin_spec l s.
    Proof.
      intros H Hm Hs. apply tsub_ok in H. destruct H as (page & Hop & Hf).
      unfold sub, with_page. rewrite Hop. apply IH; auto.
    Qed.

    (* iterating the children from some cell on *)
    Lemma tinterior_iter_min_suffix cs rgt : forall l s,
      tflat_cells (tsub (tflat r)) cs rgt = (l, None) -> mono tpred l ->
      (forall lft key, In (lft, key) cs -> forall page, open_table lft = Ok page -> sep_ok r page) ->
      (forall page, open_table rgt = Ok page -> sep_ok r page) ->
      tinterior_iter S sub cs rgt s = tmin_spec l s.
    Proof.
      induction cs as [|[lft key] cs IHc]; intros l s Hf Hm Hcs Hr.
      - cbn [tinterior_iter Flat.tflat_cells] in *. apply sub_ok; assumption.
      - apply tflat_cells_cons in Hf. destruct Hf as (a & b & Ha & Hb & ->).
        cbn [tinterior_iter].
        rewrite (sub_ok lft a s Ha (mono_app_l _ tpred _ _ Hm)); [|intros page Hop; eapply Hcs; [left; reflexivity|exact Hop]].
        destruct (drop_lt tpred a) as [|x rest] eqn:Ed.
        + rewrite (tmin_spec_app_nil a b s Ed). unfold tmin_spec at 1. rewrite Ed. cbn [Btree.andthen].
          apply IHc; [exact Hb|eapply mono_app_r; exact Hm| |exact Hr].
          intros l0 k0 Hin. eapply Hcs. right. exact Hin.
        + rewrite (tmin_spec_app_cons a b s x rest Ed). unfold tmin_spec. rewrite Ed.
          pose proof (tcb_stops (fst x) (snd x) s) as Hst.
          destruct (tcb (fst x) (snd x) s) as [[| |e] s']; cbn [fst] in Hst; [congruence|reflexivity|reflexivity].
    Qed.

    (* the children skipped by the search hold nothing >= rowid *)
    Lemma tflat_cells_skip pre : forall post rgt l,
      tflat_cells (tsub (tflat r)) (pre ++ post) rgt = (l, None) ->
      (forall lft key, In (lft, key) pre -> forall page, open_table lft = Ok page ->
         allf tpred (fst (tflat r page))) ->
      exists lp lq, l = lp ++ lq /\ allf tpred lp /\ tflat_cells (tsub (tflat r)) post rgt = (lq, None).
    Proof.
      induction pre as [|[lft key] pre IHp]; intros post rgt l Hf Hpre.
      - exists [], l. cbn [app] in *. repeat split; [constructor|exact Hf].
      - cbn [app] in Hf. apply tflat_cells_cons in Hf. destruct Hf as (a & b & Ha & Hb & ->).
        destruct (IHp _ _ _ Hb) as (lp & lq & -> & Hlp & Hq).
        { intros l0 k0 Hin. eapply Hpre. right. exact Hin. }
        exists (a ++ lp), lq. rewrite app_assoc. repeat split; [|exact Hq].
        apply Forall_app. split; [|exact Hlp].
        apply tsub_ok in Ha. destruct Ha as (page & Hop & Hfp).
        pose proof (Hpre lft key (or_introl eq_refl) page Hop) as H. rewrite Hfp in H. exact H.
    Qed.
  End Step.

  Theorem titer_min_spec : forall r pg l s,
    tflat r pg = (l, None) -> mono tpred l -> sep_ok r pg ->
    titer_min r pg rowid s = tmin_spec l s.
  Proof.
    induction r as [|r IH]; intros pg l s Hfl Hm Hsep.
    - destruct pg as [cells|cells rgt|cells|cells rgt]; cbn [Btree.titer_min Flat.tflat] in *; try discriminate.
      inversion Hfl; subst. apply tleaf_iter_min_ok. exact Hm.
    - destruct pg as [cells|cells rgt|cells|cells rgt]; cbn [Btree.titer_min Flat.tflat] in *; try discriminate.
      + inversion Hfl; subst. apply tleaf_iter_min_ok. exact Hm.
      + cbn [sep_ok] in Hsep. destruct Hsep as (Hmk & Hcells & Hrgt).
        unfold tinterior_iter_min.
        assert (E: sort_search (length cells)
                     (fun i => match nth_error cells i with Some (_, k) => rowid <=? k | None => true end)
                   = nfalse kpred (map snd cells)).
        { rewrite <- (sort_search_mono _ kpred _ Hmk). rewrite map_length. unfold sort_search.
          apply search_fuel_ext. intros x. rewrite nth_error_map.
          destruct (nth_error cells x) as [[lft k]|]; reflexivity. }
        rewrite E. set (n := nfalse kpred (map snd cells)).
        rewrite <- (firstn_skipn n cells) in Hfl.
        destruct (tflat_cells_skip r (firstn n cells) _ _ _ Hfl) as (lp & lq & -> & Hlp & Hq).
        { intros lft key Hin page Hop.
          assert (Hin': In (lft, key) cells).
          { rewrite <- (firstn_skipn n cells). apply in_or_app. left. exact Hin. }
          destruct (Hcells lft key Hin' page Hop) as [Hb _]. apply Hb.
          pose proof (firstn_nfalse_allf _ kpred (map snd cells)) as Hf. fold n in Hf.
          rewrite firstn_map in Hf. unfold allf in Hf. rewrite Forall_forall in Hf. apply Hf.
          apply in_map_iff. exists (lft, key). split; [reflexivity|exact Hin]. }
        unfold tmin_spec at 1. rewrite (drop_lt_allf _ tpred _ _ Hlp). fold (tmin_spec lq s).
        apply (tinterior_iter_min_suffix r IH); [exact Hq|eapply mono_app_r; exact Hm| |exact Hrgt].
        intros lft key Hin page Hop.
        assert (Hin': In (lft, key) cells).
        { rewrite <- (firstn_skipn n cells). apply in_or_app. right. exact Hin. }
        destruct (Hcells lft key Hin' page Hop) as [_ Hs]. exact Hs.
  Qed.
End TMin.
