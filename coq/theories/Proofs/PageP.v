(* C14 at the level of cells and pages: the four cell formats of the file
   format (fileformat2.html 1.6) decode from their encodings, the cell pointer
   array decodes to the offsets it encodes, and a page whose header, pointer
   array and cells are laid out as the format says decodes to exactly those
   cells in pointer-array order. *)
From SQ Require Import Model.Base Model.Varint Model.Record Model.Payload Model.Btree Model.Page Spec.Encode
     Proofs.BaseP Proofs.VarintP Proofs.RecordP Proofs.PayloadP.
From Coq Require Import ZifyBool ZifyNat.

(* ---- cells ---- *)
(* table leaf cell: varint payload length, varint rowid, payload (local part [, overflow page]) *)
Theorem table_leaf_cell l rowid body u pl : 0 <= l < 2 ^ 63 -> - 2 ^ 63 <= rowid < 2 ^ 63 ->
  parse_payload l body u (table_max_local u) = Ok pl ->
  parse_table_leaf (put_varint l ++ put_varint (to_u64 rowid) ++ body) u = Ok (rowid, pl).
Proof.
  intros Hl Hr Hp. unfold parse_table_leaf.
  rewrite (read_varint_put_varint l _ ltac:(lia)).
  assert (El : to_i64 l = l) by (unfold to_i64; rewrite Z.mod_small by lia; apply twos_id with (bits := 64); lia || (rewrite Z.mod_small; lia)).
  rewrite slice_from_app. cbn [bind]. rewrite (read_varint_signed rowid _ Hr). rewrite slice_from_app. cbn [bind].
  rewrite El, Hp. reflexivity.
Qed.

(* table interior cell: 4-byte left child, varint key *)
Theorem table_interior_cell child key tail : 0 <= child < 2 ^ 32 -> - 2 ^ 63 <= key < 2 ^ 63 ->
  parse_table_interior (be_enc 4 child ++ put_varint (to_u64 key) ++ tail) = Ok (child, key).
Proof.
  intros Hc Hk. unfold parse_table_interior.
  assert (L4 : len (be_enc 4 child) = 4) by (unfold len; rewrite len_be_enc; reflexivity).
  rewrite len_app, L4. pose proof (len_nonneg (put_varint (to_u64 key) ++ tail)).
  destruct (4 + len (put_varint (to_u64 key) ++ tail) <? 4) eqn:E; [lia|].
  rewrite <- L4 at 1. rewrite slice_to_app. cbn [bind]. rewrite <- L4 at 1. rewrite slice_from_app. cbn [bind].
  rewrite (read_varint_signed key tail Hk). rewrite be_be_enc by (change (256 ^ Z.of_nat 4) with (2 ^ 32); lia). reflexivity.
Qed.

(* index leaf cell: varint payload length, payload *)
Theorem index_leaf_cell l body u pl : 0 <= l < 2 ^ 63 ->
  parse_payload l body u (index_max_local u) = Ok pl ->
  parse_index_leaf (put_varint l ++ body) u = Ok pl.
Proof.
  intros Hl Hp. unfold parse_index_leaf. rewrite (read_varint_put_varint l _ ltac:(lia)).
  assert (El : to_i64 l = l) by (unfold to_i64; rewrite Z.mod_small by lia; apply twos_id with (bits := 64); lia || (rewrite Z.mod_small; lia)).
  rewrite slice_from_app. cbn [bind]. rewrite El. exact Hp.
Qed.

(* index interior cell: 4-byte left child, varint payload length, payload *)
Theorem index_interior_cell child l body u pl : 0 <= child < 2 ^ 32 -> 0 <= l < 2 ^ 63 ->
  parse_payload l body u (index_max_local u) = Ok pl ->
  parse_index_interior (be_enc 4 child ++ put_varint l ++ body) u = Ok (child, pl).
Proof.
  intros Hc Hl Hp. unfold parse_index_interior.
  assert (L4 : len (be_enc 4 child) = 4) by (unfold len; rewrite len_be_enc; reflexivity).
  rewrite len_app, L4. pose proof (len_nonneg (put_varint l ++ body)).
  destruct (4 + len (put_varint l ++ body) <? 4) eqn:E; [lia|].
  rewrite <- L4 at 1. rewrite slice_to_app. cbn [bind]. rewrite <- L4 at 1. rewrite slice_from_app. cbn [bind].
  rewrite (read_varint_put_varint l _ ltac:(lia)).
  assert (El : to_i64 l = l) by (unfold to_i64; rewrite Z.mod_small by lia; apply twos_id with (bits := 64); lia || (rewrite Z.mod_small; lia)).
  rewrite slice_from_app. cbn [bind]. rewrite El, Hp. cbn [bind].
  rewrite be_be_enc by (change (256 ^ Z.of_nat 4) with (2 ^ 32); lia). reflexivity.
Qed.

(* ---- the cell pointer array ---- *)
Definition enc_ptrs (starts : list Z) : list byte := flat_map (be_enc 2) starts.

Lemma be_enc2 s : 0 <= s < 65536 -> exists a b, be_enc 2 s = [a; b] /\ b2z a * 256 + b2z b = s.
Proof.
  intros H. cbn [be_enc]. exists (z2b (s / 256 ^ Z.of_nat 1)), (z2b (s mod 256 ^ Z.of_nat 1 / 256 ^ Z.of_nat 0)). split; [reflexivity|].
  change (256 ^ Z.of_nat 1) with 256. change (256 ^ Z.of_nat 0) with 1. rewrite Z.div_1_r.
  rewrite !b2z_z2b by (Z.div_mod_to_equations; lia). Z.div_mod_to_equations; lia.
Qed.

Theorem cell_pointers_enc starts : forall rest maxlen, Forall (fun s => 0 <= s < 65536 /\ s <= maxlen) starts ->
  cell_pointers (length starts) (enc_ptrs starts ++ rest) maxlen = Ok starts.
Proof.
  induction starts as [|s starts IH]; intros rest maxlen H; cbn [length cell_pointers]; [reflexivity|].
  inversion H as [|? ? [Hs Hm] H']; subst. destruct (be_enc2 s Hs) as (a & b & E & V).
  unfold enc_ptrs. cbn [flat_map]. rewrite E. cbn [app]. rewrite V.
  destruct (maxlen <? s) eqn:El; [lia|]. fold (enc_ptrs starts). rewrite IH by exact H'. reflexivity.
Qed.

Theorem parse_cellpointers_enc starts rest maxlen : Forall (fun s => 0 <= s < 65536 /\ s <= maxlen) starts ->
  parse_cellpointers (Z.of_nat (length starts)) (enc_ptrs starts ++ rest) maxlen = Ok starts.
Proof.
  intros H. unfold parse_cellpointers.
  assert (L : len (enc_ptrs starts) = Z.of_nat (length starts) * 2).
  { clear H. induction starts as [|s starts IH]; [reflexivity|]. unfold enc_ptrs in *. cbn [flat_map length]. rewrite len_app, IH.
    unfold len at 1. rewrite len_be_enc. lia. }
  rewrite len_app, L. pose proof (len_nonneg rest).
  destruct (Z.of_nat (length starts) * 2 + len rest <? Z.of_nat (length starts) * 2) eqn:E; [lia|].
  rewrite Nat2Z.id. apply cell_pointers_enc. exact H.
Qed.

(* ---- cells found through their offsets ---- *)
Lemma parse_cells_at {A} (f : list byte -> res A) content : forall starts cells,
  Forall2 (fun s c => 0 <= s <= len content /\ f (drop s content) = Ok c) starts cells ->
  parse_cells f content starts = Ok cells.
Proof.
  induction starts as [|s starts IH]; intros cells H; inversion H as [|? c ? cs [Hs Hf] H']; subst; cbn [parse_cells]; [reflexivity|].
  unfold slice_from. assert ((0 <=? s) && (s <=? len content) = true) as -> by lia. cbn [bind].
  unfold drop in Hf. rewrite Hf. cbn [bind]. rewrite (IH cs H'). reflexivity.
Qed.

(* ---- a table leaf page (not page 1): type 13, cell count at bytes 3..4, pointer array from byte 8,
   each cell at its offset - decodes to the cells, in pointer-array order ---- *)
Theorem table_leaf_page hdr starts rest cells u :
  len hdr = 8 -> index hdr 0 = Ok 13 -> slice hdr 3 5 = Ok (be_enc 2 (Z.of_nat (length starts))) ->
  Z.of_nat (length starts) < 65536 ->
  let b := hdr ++ enc_ptrs starts ++ rest in
  Forall (fun s => 0 <= s < 65536 /\ s <= len b) starts ->
  Forall2 (fun s c => 0 <= s <= len b /\ parse_table_leaf (drop s b) u = Ok c) starts cells ->
  parse_page b false u = Ok (TLeaf cells).
Proof.
  intros Hl Ht Hc Hn b Hs Hcells. unfold parse_page. cbn [bind].
  assert (Hcnt : slice b 3 5 = Ok (be_enc 2 (Z.of_nat (length starts)))).
  { subst b. unfold slice in *. rewrite len_app. pose proof (len_nonneg (enc_ptrs starts ++ rest)).
    destruct ((0 <=? 3) && (3 <=? 5) && (5 <=? len hdr)) eqn:E; [|discriminate].
    assert ((0 <=? 3) && (3 <=? 5) && (5 <=? len hdr + len (enc_ptrs starts ++ rest)) = true) as -> by lia.
    rewrite <- Hc. f_equal. rewrite skipn_app, firstn_app.
    assert (Hlen : length hdr = 8%nat) by (unfold len in Hl; lia).
    rewrite skipn_length, Hlen. change (Z.to_nat 3 - 8)%nat with 0%nat. change (Z.to_nat (5 - 3) - (8 - Z.to_nat 3))%nat with 0%nat.
    cbn [skipn firstn]. rewrite app_nil_r. reflexivity. }
  rewrite Hcnt. cbn [bind].
  assert (Hty : index b 0 = Ok 13).
  { subst b. unfold index in *. rewrite len_app. pose proof (len_nonneg (enc_ptrs starts ++ rest)).
    destruct ((0 <=? 0) && (0 <? len hdr)) eqn:E; [|discriminate].
    assert ((0 <=? 0) && (0 <? len hdr + len (enc_ptrs starts ++ rest)) = true) as -> by lia.
    rewrite <- Ht. f_equal. f_equal. destruct hdr; [cbn in Hl; discriminate|reflexivity]. }
  rewrite Hty. cbn [bind]. change (13 =? 13) with true. cbv iota.
  assert (Hp : slice_from b 8 = Ok (enc_ptrs starts ++ rest)) by (subst b; rewrite <- Hl; apply slice_from_app).
  rewrite Hp. cbn [bind].
  rewrite be_be_enc by (change (256 ^ Z.of_nat 2) with 65536; lia).
  rewrite (parse_cellpointers_enc starts rest (len b) Hs). cbn [bind].
  rewrite (parse_cells_at (fun c => parse_table_leaf c u) b starts cells Hcells). reflexivity.
Qed.

(* ---- the other page kinds ---- *)
Lemma slice_prefix hdr tail i j x : slice hdr i j = Ok x -> slice (hdr ++ tail) i j = Ok x.
Proof.
  unfold slice. rewrite len_app. pose proof (len_nonneg tail) as Ht.
  destruct ((0 <=? i) && (i <=? j) && (j <=? len hdr)) eqn:E; [|discriminate].
  assert ((0 <=? i) && (i <=? j) && (j <=? len hdr + len tail) = true) as -> by lia.
  intros H. rewrite <- H. f_equal. rewrite skipn_app, firstn_app, skipn_length.
  assert (Hz : (Z.to_nat (j - i) - (length hdr - Z.to_nat i) = 0)%nat) by (unfold len in *; lia).
  rewrite Hz. cbn [firstn]. rewrite app_nil_r. reflexivity.
Qed.

Lemma index_prefix hdr tail i x : index hdr i = Ok x -> index (hdr ++ tail) i = Ok x.
Proof.
  unfold index. rewrite len_app. pose proof (len_nonneg tail) as Ht.
  destruct ((0 <=? i) && (i <? len hdr)) eqn:E; [|discriminate].
  assert ((0 <=? i) && (i <? len hdr + len tail) = true) as -> by lia.
  intros H. rewrite <- H. f_equal. f_equal. apply app_nth1. unfold len in *. lia.
Qed.

(* index leaf page: type 10, 8-byte header *)
Theorem index_leaf_page hdr starts rest cells u :
  len hdr = 8 -> index hdr 0 = Ok 10 -> slice hdr 3 5 = Ok (be_enc 2 (Z.of_nat (length starts))) ->
  Z.of_nat (length starts) < 65536 ->
  let b := hdr ++ enc_ptrs starts ++ rest in
  Forall (fun s => 0 <= s < 65536 /\ s <= len b) starts ->
  Forall2 (fun s c => 0 <= s <= len b /\ parse_index_leaf (drop s b) u = Ok c) starts cells ->
  parse_page b false u = Ok (ILeaf cells).
Proof.
  intros Hl Ht Hc Hn b Hs Hcells. unfold parse_page. cbn [bind].
  subst b. rewrite (slice_prefix _ _ _ _ _ Hc). cbn [bind]. rewrite (index_prefix _ _ _ _ Ht). cbn [bind].
  change (10 =? 13) with false. change (10 =? 5) with false. change (10 =? 10) with true. cbv iota.
  rewrite <- Hl at 1. rewrite slice_from_app. cbn [bind].
  rewrite be_be_enc by (change (256 ^ Z.of_nat 2) with 65536; lia).
  rewrite (parse_cellpointers_enc starts rest _ Hs). cbn [bind].
  rewrite (parse_cells_at (fun c => parse_index_leaf c u) _ starts cells Hcells). reflexivity.
Qed.

(* table interior page: type 5, 12-byte header with the right-most child at bytes 8..11 *)
Theorem table_interior_page hdr starts rest cells rm :
  len hdr = 12 -> index hdr 0 = Ok 5 -> slice hdr 3 5 = Ok (be_enc 2 (Z.of_nat (length starts))) ->
  slice hdr 8 12 = Ok (be_enc 4 rm) -> 0 <= rm < 2 ^ 32 ->
  Z.of_nat (length starts) < 65536 ->
  let b := hdr ++ enc_ptrs starts ++ rest in
  Forall (fun s => 0 <= s < 65536 /\ s <= len b) starts ->
  Forall2 (fun s c => 0 <= s <= len b /\ parse_table_interior (drop s b) = Ok c) starts cells ->
  forall u, parse_page b false u = Ok (TInterior cells rm).
Proof.
  intros Hl Ht Hc Hr Hrm Hn b Hs Hcells u. unfold parse_page. cbn [bind].
  subst b. rewrite (slice_prefix _ _ _ _ _ Hc). cbn [bind]. rewrite (index_prefix _ _ _ _ Ht). cbn [bind].
  change (5 =? 13) with false. change (5 =? 5) with true. cbv iota.
  rewrite (slice_prefix _ _ _ _ _ Hr). cbn [bind].
  rewrite <- Hl at 1. rewrite slice_from_app. cbn [bind].
  rewrite be_be_enc by (change (256 ^ Z.of_nat 2) with 65536; lia).
  rewrite (parse_cellpointers_enc starts rest _ Hs). cbn [bind].
  rewrite (parse_cells_at parse_table_interior _ starts cells Hcells). cbn [bind].
  rewrite be_be_enc by (change (256 ^ Z.of_nat 4) with (2 ^ 32); lia). reflexivity.
Qed.

(* index interior page: type 2, 12-byte header *)
Theorem index_interior_page hdr starts rest cells rm u :
  len hdr = 12 -> index hdr 0 = Ok 2 -> slice hdr 3 5 = Ok (be_enc 2 (Z.of_nat (length starts))) ->
  slice hdr 8 12 = Ok (be_enc 4 rm) -> 0 <= rm < 2 ^ 32 ->
  Z.of_nat (length starts) < 65536 ->
  let b := hdr ++ enc_ptrs starts ++ rest in
  Forall (fun s => 0 <= s < 65536 /\ s <= len b) starts ->
  Forall2 (fun s c => 0 <= s <= len b /\ parse_index_interior (drop s b) u = Ok c) starts cells ->
  parse_page b false u = Ok (IInterior cells rm).
Proof.
  intros Hl Ht Hc Hr Hrm Hn b Hs Hcells. unfold parse_page. cbn [bind].
  subst b. rewrite (slice_prefix _ _ _ _ _ Hc). cbn [bind]. rewrite (index_prefix _ _ _ _ Ht). cbn [bind].
  change (2 =? 13) with false. change (2 =? 5) with false. change (2 =? 10) with false. change (2 =? 2) with true. cbv iota.
  rewrite (slice_prefix _ _ _ _ _ Hr). cbn [bind].
  rewrite <- Hl at 1. rewrite slice_from_app. cbn [bind].
  rewrite be_be_enc by (change (256 ^ Z.of_nat 2) with 65536; lia).
  rewrite (parse_cellpointers_enc starts rest _ Hs). cbn [bind].
  rewrite (parse_cells_at (fun c => parse_index_interior c u) _ starts cells Hcells). cbn [bind].
  rewrite be_be_enc by (change (256 ^ Z.of_nat 4) with (2 ^ 32); lia). reflexivity.
Qed.

(* page 1 (sqlite_master's root): the 100-byte file header comes first, the b-tree page header follows it,
   and the cell offsets count from the start of the page, file header included *)
Theorem first_page_table_leaf fh hdr starts rest cells u :
  len fh = 100 -> len hdr = 8 -> index hdr 0 = Ok 13 -> slice hdr 3 5 = Ok (be_enc 2 (Z.of_nat (length starts))) ->
  Z.of_nat (length starts) < 65536 ->
  let b := fh ++ hdr ++ enc_ptrs starts ++ rest in
  Forall (fun s => 0 <= s < 65536 /\ s <= len b) starts ->
  Forall2 (fun s c => 0 <= s <= len b /\ parse_table_leaf (drop s b) u = Ok c) starts cells ->
  parse_page b true u = Ok (TLeaf cells).
Proof.
  intros Hf Hl Ht Hc Hn b Hs Hcells. unfold parse_page. unfold header_size.
  subst b. rewrite <- Hf at 1. rewrite slice_from_app. cbn [bind].
  rewrite (slice_prefix _ _ _ _ _ Hc). cbn [bind]. rewrite (index_prefix _ _ _ _ Ht). cbn [bind].
  change (13 =? 13) with true. cbv iota.
  rewrite <- Hl at 1. rewrite slice_from_app. cbn [bind].
  rewrite be_be_enc by (change (256 ^ Z.of_nat 2) with 65536; lia).
  rewrite (parse_cellpointers_enc starts rest _ Hs). cbn [bind].
  rewrite (parse_cells_at (fun c => parse_table_leaf c u) _ starts cells Hcells). reflexivity.
Qed.

Theorem first_page_table_interior fh hdr starts rest cells rm :
  len fh = 100 -> len hdr = 12 -> index hdr 0 = Ok 5 -> slice hdr 3 5 = Ok (be_enc 2 (Z.of_nat (length starts))) ->
  slice hdr 8 12 = Ok (be_enc 4 rm) -> 0 <= rm < 2 ^ 32 ->
  Z.of_nat (length starts) < 65536 ->
  let b := fh ++ hdr ++ enc_ptrs starts ++ rest in
  Forall (fun s => 0 <= s < 65536 /\ s <= len b) starts ->
  Forall2 (fun s c => 0 <= s <= len b /\ parse_table_interior (drop s b) = Ok c) starts cells ->
  forall u, parse_page b true u = Ok (TInterior cells rm).
Proof.
  intros Hf Hl Ht Hc Hr Hrm Hn b Hs Hcells u. unfold parse_page. unfold header_size.
  subst b. rewrite <- Hf at 1. rewrite slice_from_app. cbn [bind].
  rewrite (slice_prefix _ _ _ _ _ Hc). cbn [bind]. rewrite (index_prefix _ _ _ _ Ht). cbn [bind].
  change (5 =? 13) with false. change (5 =? 5) with true. cbv iota.
  rewrite (slice_prefix _ _ _ _ _ Hr). cbn [bind].
  rewrite <- Hl at 1. rewrite slice_from_app. cbn [bind].
  rewrite be_be_enc by (change (256 ^ Z.of_nat 2) with 65536; lia).
  rewrite (parse_cellpointers_enc starts rest _ Hs). cbn [bind].
  rewrite (parse_cells_at parse_table_interior _ starts cells Hcells). cbn [bind].
  rewrite be_be_enc by (change (256 ^ Z.of_nat 4) with (2 ^ 32); lia). reflexivity.
Qed.
