(* parseRecord inverts the record format for every admissible choice of
   serial types *)
From SQ Require Import Model.Base Model.Varint Model.Record Spec.Encode Proofs.BaseP Proofs.VarintP.
From Coq Require Import ZifyBool ZifyNat.
Ltac Zify.zify_post_hook ::= Z.div_mod_to_equations.

Lemma len_be_enc n u : length (be_enc n u) = n.
Proof. revert u; induction n as [|n IH]; intros u; cbn [be_enc length]; auto. Qed.

Lemma pow256_pos k : 0 < 256 ^ Z.of_nat k.
Proof. apply Z.pow_pos_nonneg; lia. Qed.

Lemma be_be_enc n : forall u, 0 <= u < 256 ^ Z.of_nat n -> be (be_enc n u) = u.
Proof.
  induction n as [|n IH]; intros u Hu.
  - cbn in *. unfold be. cbn. lia.
  - cbn [be_enc]. change (?x :: ?l) with ([x] ++ l). rewrite be_app.
    rewrite Nat2Z.inj_succ, Z.pow_succ_r in Hu by lia.
    pose proof (pow256_pos n) as Hp.
    assert (Hq: 0 <= u / 256 ^ Z.of_nat n < 256) by (split; [apply Z.div_pos; lia|apply Z.div_lt_upper_bound; lia]).
    rewrite IH by (apply Z.mod_pos_bound; lia).
    unfold be at 1. cbn [be_acc]. rewrite b2z_z2b by lia.
    unfold len. rewrite len_be_enc.
    pose proof (Z.div_mod u (256 ^ Z.of_nat n) ltac:(lia)). lia.
Qed.

Lemma len_twos_enc n z : len (twos_enc n z) = Z.of_nat n.
Proof. unfold len, twos_enc. rewrite len_be_enc. reflexivity. Qed.

Lemma twos_be_enc n z tail :
  (0 < n)%nat -> - 2 ^ (8 * Z.of_nat n - 1) <= z < 2 ^ (8 * Z.of_nat n - 1) ->
  twos (8 * Z.of_nat n) (be (take (Z.of_nat n) (twos_enc n z ++ tail))) = z.
Proof.
  intros Hn Hz.
  rewrite <- (len_twos_enc n z) at 2. rewrite take_app.
  unfold twos_enc. rewrite be_be_enc by (apply Z.mod_pos_bound; apply pow256_pos).
  apply twos_id; try lia.
  replace (2 ^ (8 * Z.of_nat n)) with (256 ^ Z.of_nat n); [reflexivity|].
  change 256 with (2 ^ 8). rewrite <- Z.pow_mul_r by lia. reflexivity.
Qed.

Lemma drop_twos_enc n z tail : drop (Z.of_nat n) (twos_enc n z ++ tail) = tail.
Proof. rewrite <- (len_twos_enc n z). apply drop_app. Qed.

Lemma len_ge_twos n z tail : Z.of_nat n <= len (twos_enc n z ++ tail).
Proof. rewrite len_app, len_twos_enc. pose proof (len_nonneg tail). lia. Qed.

Lemma parse_value_ok c tail : scol_ok c ->
  parse_value (serial_type c) (scol_body c ++ tail) = Ok (scol_value c, tail).
Proof.
  intros Hok. destruct c as [|w z|bits| | |s|s]; cbn [serial_type scol_body scol_value scol_ok] in *.
  - reflexivity.
  - destruct Hok as [Hw Hz].
    cbn [In] in Hw.
    destruct Hw as [<-|[<-|[<-|[<-|[<-|[<-|[]]]]]]]; unfold parse_value;
      cbn [Z.eqb Pos.eqb orb Z.ltb Z.compare];
      match goal with |- context [twos_enc ?n z] =>
        pose proof (len_ge_twos n z tail) as Hl;
        pose proof (twos_be_enc n z tail ltac:(lia) Hz) as Ht;
        pose proof (drop_twos_enc n z tail) as Hd end;
      cbn [Z.of_nat Pos.of_succ_nat Pos.succ Z.mul Pos.mul] in *.
    + destruct (len (twos_enc 1 z ++ tail) <? 1) eqn:E; [lia|]. rewrite Ht, Hd. reflexivity.
    + destruct (len (twos_enc 2 z ++ tail) <? 2) eqn:E; [lia|]. rewrite Ht, Hd. reflexivity.
    + destruct (len (twos_enc 3 z ++ tail) <? 3) eqn:E; [lia|].
      unfold read_twos24. change (firstn 3) with (take 3). rewrite Ht, Hd. reflexivity.
    + destruct (len (twos_enc 4 z ++ tail) <? 4) eqn:E; [lia|]. rewrite Ht, Hd. reflexivity.
    + destruct (len (twos_enc 6 z ++ tail) <? 6) eqn:E; [lia|].
      unfold read_twos48. change (firstn 6) with (take 6). rewrite Ht, Hd. reflexivity.
    + destruct (len (twos_enc 8 z ++ tail) <? 8) eqn:E; [lia|]. rewrite Ht, Hd. reflexivity.
  - unfold parse_value. cbn [Z.eqb Pos.eqb].
    assert (Hl: len (be_enc 8 bits) = 8) by (unfold len; rewrite len_be_enc; reflexivity).
    destruct (len (be_enc 8 bits ++ tail) <? 8) eqn:E.
    { rewrite len_app in E. pose proof (len_nonneg tail). lia. }
    rewrite <- Hl at 1 2. rewrite take_app, drop_app.
    rewrite be_be_enc by (change (256 ^ Z.of_nat 8) with (2 ^ 64); lia). reflexivity.
  - reflexivity.
  - reflexivity.
  - pose proof (len_nonneg s) as Hs. unfold parse_value.
    set (c := 13 + 2 * len s).
    assert (Hc: 13 <= c) by lia.
    repeat match goal with |- context [c =? ?k] => destruct (c =? k) eqn:?; [lia|] end.
    cbn [orb]. destruct (c <? 0) eqn:?; [lia|].
    assert (He: Z.even c = false). { subst c. rewrite Z.even_add_mul_2. reflexivity. }
    rewrite He.
    replace ((c - 13) / 2) with (len s) by (subst c; lia).
    destruct (len (s ++ tail) <? len s) eqn:E.
    { rewrite len_app in E. pose proof (len_nonneg tail). lia. }
    rewrite slice_to_app, slice_from_app. reflexivity.
  - pose proof (len_nonneg s) as Hs. unfold parse_value.
    set (c := 12 + 2 * len s).
    assert (Hc: 12 <= c) by lia.
    repeat match goal with |- context [c =? ?k] => destruct (c =? k) eqn:?; [lia|] end.
    cbn [orb]. destruct (c <? 0) eqn:?; [lia|].
    assert (He: Z.even c = true). { subst c. rewrite Z.even_add_mul_2. reflexivity. }
    rewrite He.
    replace ((c - 12) / 2) with (len s) by (subst c; lia).
    destruct (len (s ++ tail) <? len s) eqn:E.
    { rewrite len_app in E. pose proof (len_nonneg tail). lia. }
    rewrite slice_to_app, slice_from_app. reflexivity.
Qed.

Lemma serial_type_range c : scol_ok c -> 0 <= serial_type c < 2 ^ 63.
Proof.
  destruct c as [|w z|bits| | |s|s]; cbn [serial_type scol_ok]; intros H; try lia.
  - destruct H as [Hw _]. cbn [In] in Hw.
    destruct Hw as [<-|[<-|[<-|[<-|[<-|[<-|[]]]]]]]; lia.
  - pose proof (len_nonneg s). lia.
  - pose proof (len_nonneg s). lia.
Qed.

Lemma put_varint_nonempty v : 1 <= len (put_varint v).
Proof. rewrite put_varint_len. pose proof (varint_len_range v). lia. Qed.

Lemma parse_cols_ok cols : forall fuel tail acc,
  Forall scol_ok cols -> (length cols <= fuel)%nat ->
  parse_cols fuel (enc_types cols) (enc_bodies cols ++ tail) acc
  = Ok (rev acc ++ map scol_value cols).
Proof.
  induction cols as [|c cols IH]; intros fuel tail acc Hok Hf.
  - destruct fuel; cbn; rewrite app_nil_r; reflexivity.
  - inversion Hok as [|? ? Hc Hcs]; subst.
    cbn [enc_types enc_bodies flat_map]. fold (enc_types cols). fold (enc_bodies cols).
    pose proof (serial_type_range c Hc) as Hr.
    pose proof (put_varint_nonempty (serial_type c)) as Hne.
    destruct (put_varint (serial_type c) ++ enc_types cols) as [|b0 hdr] eqn:Eh.
    { exfalso. apply (f_equal len) in Eh. rewrite len_app, len_nil in Eh.
      pose proof (len_nonneg (enc_types cols)). lia. }
    rewrite <- Eh. clear Eh b0 hdr.
    destruct fuel as [|f]; [cbn [length] in Hf; lia|].
    cbn [parse_cols].
    destruct (put_varint (serial_type c) ++ enc_types cols) as [|b0 hdr] eqn:Eh.
    { exfalso. apply (f_equal len) in Eh. rewrite len_app, len_nil in Eh.
      pose proof (len_nonneg (enc_types cols)). lia. }
    rewrite <- Eh. clear Eh b0 hdr.
    rewrite read_varint_put_varint by lia. rewrite to_i64_small by lia.
    rewrite slice_from_app. cbn [bind].
    rewrite <- app_assoc. rewrite parse_value_ok by exact Hc. cbn [bind fst snd].
    rewrite IH; [|assumption|cbn [length] in Hf; lia].
    cbn [rev map]. rewrite <- app_assoc. reflexivity.
Qed.

Lemma enc_types_len_ge cols : Z.of_nat (length cols) <= len (enc_types cols).
Proof.
  induction cols as [|c cols IH]; [cbn; unfold len; cbn; lia|].
  cbn [enc_types flat_map length]. fold (enc_types cols). rewrite len_app.
  pose proof (put_varint_nonempty (serial_type c)). lia.
Qed.

Theorem parse_record_enc_record hsize cols tail :
  Forall scol_ok cols -> hsize_ok hsize cols ->
  parse_record (enc_record hsize cols ++ tail) = Ok (map scol_value cols).
Proof.
  intros Hok [Hh Hsz]. unfold parse_record, enc_record.
  rewrite <- !app_assoc.
  rewrite read_varint_put_varint by lia. rewrite to_i64_small by lia.
  set (hv := put_varint hsize) in *. set (ty := enc_types cols) in *.
  pose proof (len_nonneg ty) as Hty. pose proof (put_varint_nonempty hsize) as Hhv. fold hv in Hhv.
  destruct (hsize <? len hv) eqn:E1; [lia|].
  assert (Hlen: len (hv ++ ty ++ enc_bodies cols ++ tail) = hsize + len (enc_bodies cols ++ tail)).
  { rewrite !len_app. lia. }
  destruct (len (hv ++ ty ++ enc_bodies cols ++ tail) <? hsize) eqn:E2.
  { pose proof (len_nonneg (enc_bodies cols ++ tail)). lia. }
  cbn [orb].
  assert (Hs1: slice (hv ++ ty ++ enc_bodies cols ++ tail) (len hv) hsize = Ok ty).
  { unfold slice. rewrite Hlen. pose proof (len_nonneg (enc_bodies cols ++ tail)).
    destruct (0 <=? len hv) eqn:?; [|lia]. destruct (len hv <=? hsize) eqn:?; [|lia].
    destruct (hsize <=? hsize + len (enc_bodies cols ++ tail)) eqn:?; [|lia]. cbn [andb].
    f_equal. change (skipn (Z.to_nat (len hv))) with (drop (len hv)). rewrite drop_app.
    replace (hsize - len hv) with (len ty) by lia.
    change (firstn (Z.to_nat (len ty))) with (take (len ty)). apply take_app. }
  rewrite Hs1. cbn [bind].
  assert (Hs2: slice_from (hv ++ ty ++ enc_bodies cols ++ tail) hsize = Ok (enc_bodies cols ++ tail)).
  { rewrite app_assoc. replace hsize with (len (hv ++ ty)) by (rewrite len_app; lia).
    apply slice_from_app. }
  rewrite Hs2. cbn [bind].
  subst ty. rewrite parse_cols_ok; [reflexivity|assumption|].
  pose proof (enc_types_len_ge cols). unfold len in *. lia.
Qed.
