(* C05 for the operations of db/low.go: on every file image (any bytes) that a
   pager serves in whole pages, every scan, search and lookup ends in rows
   and/or an ordinary error. *)
From SQ Require Import Model.Base Model.Varint Model.Record Model.Payload Model.Btree
     Model.Page Model.Cmp Model.Low Proofs.BaseP Proofs.VarintP Proofs.PayloadP Proofs.TotalP.
From Coq Require Import ZifyBool ZifyNat FinFun.

Definition pl_ok (pl : cell_payload) : Prop := 0 <= pl_len pl.

Lemma parse_payload_len l c u x pl : parse_payload l c u x = Ok pl -> pl_ok pl.
Proof.
  unfold parse_payload, pl_ok. destruct (l <? 0) eqn:E; [discriminate|].
  destruct (_ =? l); [destruct (len c <? l); [discriminate|]; intros H; inversion H; cbn; lia|].
  destruct (len c <? _); [discriminate|].
  destruct (slice_to _ _) as [loc|e]; cbn [bind]; [|discriminate].
  destruct (slice _ _ _) as [ptr|e]; cbn [bind]; [|discriminate].
  destruct (be ptr =? 0); [discriminate|]. intros H; inversion H; cbn; lia.
Qed.

Lemma parse_cells_forall {A} (f : list byte -> res A) (Q : A -> Prop) content :
  (forall c x, f c = Ok x -> Q x) ->
  forall starts xs, parse_cells f content starts = Ok xs -> Forall Q xs.
Proof.
  intros Hf. induction starts as [|s rest IH]; intros xs; cbn [parse_cells].
  - intros H; inversion H; constructor.
  - destruct (slice_from content s) as [c|e]; cbn [bind]; [|discriminate].
    destruct (f c) as [x|e] eqn:Ef; cbn [bind]; [|discriminate].
    destruct (parse_cells f content rest) as [xs'|e]; cbn [bind]; [|discriminate].
    intros H; inversion H; subst. constructor; [eapply Hf; eauto|apply IH; reflexivity].
Qed.

Lemma bind_ok {A B} (x : res A) (f : A -> res B) b : bind x f = Ok b -> exists a, x = Ok a /\ f a = Ok b.
Proof. destruct x as [a|e]; cbn [bind]; [eauto|discriminate]. Qed.

Theorem parse_page_ok b first u p : parse_page b first u = Ok p -> gpage_ok cell_payload pl_ok p.
Proof.
  unfold parse_page. intros H.
  apply bind_ok in H. destruct H as (hb & _ & H).
  apply bind_ok in H. destruct H as (cnt & _ & H).
  apply bind_ok in H. destruct H as (typ & _ & H).
  destruct (typ =? 13).
  { apply bind_ok in H. destruct H as (ptrs & _ & H). apply bind_ok in H. destruct H as (starts & _ & H).
    apply bind_ok in H. destruct H as (cs & Hc & H). inversion H; subst. cbn [gpage_ok].
    eapply parse_cells_forall; [|exact Hc]. intros c [rowid pl]. unfold parse_table_leaf.
    destruct (read_varint c) as [[l n]|]; [|discriminate]. intros X.
    apply bind_ok in X. destruct X as (c1 & _ & X). destruct (read_varint c1) as [[r n2]|]; [|discriminate].
    apply bind_ok in X. destruct X as (c2 & _ & X). apply bind_ok in X. destruct X as (pl' & Hp & X).
    inversion X; subst. cbn [snd]. eapply parse_payload_len; eauto. }
  destruct (typ =? 5).
  { apply bind_ok in H. destruct H as (rm & _ & H). apply bind_ok in H. destruct H as (ptrs & _ & H).
    apply bind_ok in H. destruct H as (starts & _ & H). apply bind_ok in H. destruct H as (cs & _ & H).
    inversion H; subst. exact I. }
  destruct (typ =? 10).
  { apply bind_ok in H. destruct H as (ptrs & _ & H). apply bind_ok in H. destruct H as (starts & _ & H).
    apply bind_ok in H. destruct H as (cs & Hc & H). inversion H; subst. cbn [gpage_ok].
    eapply parse_cells_forall; [|exact Hc]. intros c pl. unfold parse_index_leaf.
    destruct (read_varint c) as [[l n]|]; [|discriminate]. intros X.
    apply bind_ok in X. destruct X as (c1 & _ & X). eapply parse_payload_len; eauto. }
  destruct (typ =? 2); [|discriminate].
  apply bind_ok in H. destruct H as (rm & _ & H). apply bind_ok in H. destruct H as (ptrs & _ & H).
  apply bind_ok in H. destruct H as (starts & _ & H). apply bind_ok in H. destruct H as (cs & Hc & H).
  inversion H; subst. cbn [gpage_ok].
  eapply parse_cells_forall; [|exact Hc]. intros c [lft pl]. unfold parse_index_interior.
  destruct (len c <? 4); [discriminate|]. intros X.
  apply bind_ok in X. destruct X as (l4 & _ & X). apply bind_ok in X. destruct X as (c0 & _ & X).
  destruct (read_varint c0) as [[l n]|]; [|discriminate].
  apply bind_ok in X. destruct X as (c1 & _ & X). apply bind_ok in X. destruct X as (pl' & Hp & X).
  inversion X; subst. cbn [snd]. eapply parse_payload_len; eauto.
Qed.

Section LowTotal.
  Variable pg : Z -> res (list byte).
  Variable U : Z.
  Variable npages : nat.
  (* the pager contract: whole pages of the (validated) page size or an
     ordinary error; at most npages distinct page numbers are readable *)
  Hypothesis HU : 512 <= U.
  Hypothesis Hpg_len : forall n buf, pg n = Ok buf -> len buf = U.
  Hypothesis Hpg_np : forall n, np (pg n).
  Variable ps : list Z.
  Hypothesis Hps : NoDup ps /\ readable pg ps /\ (length ps <= npages)%nat.

  Notation op := (openp pg U).

  Lemma op_np n : np (op n).
  Proof. apply openp_np; assumption. Qed.

  Lemma op_ok n p : op n = Ok p -> gpage_ok cell_payload pl_ok p.
  Proof. unfold openp. intros H. apply bind_ok in H. destruct H as (b & _ & H). eapply parse_page_ok; eauto. Qed.

  Lemma load_np pl : pl_ok pl -> np (load pg npages pl).
  Proof.
    intros Hk. unfold load. destruct Hps as (Hnd & Hr & Hn).
    apply np_bind; [eapply add_overflow_np; eauto|]. intros c _. apply parse_record_np.
  Qed.

  Section CB.
    Variable S : Type.

    Theorem table_scan_ok root (cb : Z -> record -> S -> flow * S) s :
      (forall k r s, fl_ok (cb k r s)) -> fl_ok (table_scan pg op npages S root cb s).
    Proof.
      intros Hcb. unfold table_scan.
      pose proof (open_table_np _ op op_np root) as Hn.
      destruct (open_table _ op root) as [p|e] eqn:E.
      - apply (titer_ok cell_payload op pl_ok op_np op_ok S).
        + intros k pl s0 Hk. pose proof (load_np pl Hk) as Hl. destruct (load pg npages pl) as [rec|e]; [apply Hcb|].
          unfold fl_ok. cbn. destruct e; try exact I; discriminate Hl.
        + eapply open_table_ok; eauto. exact op_ok.
      - unfold fl_ok. cbn. destruct e; try exact I; discriminate Hn.
    Qed.

    Theorem index_scan_ok root (cb : record -> S -> flow * S) s :
      (forall r s, fl_ok (cb r s)) -> fl_ok (index_scan pg op npages S root cb s).
    Proof.
      intros Hcb. unfold index_scan.
      pose proof (open_index_np _ op op_np root) as Hn.
      destruct (open_index _ op root) as [p|e] eqn:E.
      - apply (iiter_ok cell_payload record op (load pg npages) pl_ok op_np op_ok load_np S cb Hcb).
        eapply open_index_ok; eauto. exact op_ok.
      - unfold fl_ok. cbn. destruct e; try exact I; discriminate Hn.
    Qed.

    Theorem index_scan_min_ok root from (cb : record -> S -> flow * S) s :
      (forall r s, fl_ok (cb r s)) -> fl_ok (index_scan_min pg op npages S root from cb s).
    Proof.
      intros Hcb. unfold index_scan_min.
      pose proof (open_index_np _ op op_np root) as Hn.
      destruct (open_index _ op root) as [p|e] eqn:E.
      - apply (iiter_min_ok cell_payload record op (load pg npages) pl_ok op_np op_ok load_np S cb Hcb).
        eapply open_index_ok; eauto. exact op_ok.
      - unfold fl_ok. cbn. destruct e; try exact I; discriminate Hn.
    Qed.

    Theorem index_scan_eq_ok root k (cb : record -> S -> flow * S) s :
      (forall r s, fl_ok (cb r s)) -> fl_ok (index_scan_eq pg op npages S root k cb s).
    Proof.
      intros Hcb. unfold index_scan_eq. apply index_scan_min_ok.
      intros r s0. destruct (equals k r); [apply Hcb|exact I].
    Qed.

    Theorem index_scan_range_ok root from to (cb : record -> S -> flow * S) s :
      (forall r s, fl_ok (cb r s)) -> fl_ok (index_scan_range pg op npages S root from to cb s).
    Proof.
      intros Hcb. unfold index_scan_range. apply index_scan_min_ok.
      intros r s0. destruct (search to r); [exact I|apply Hcb].
    Qed.
  End CB.

  Theorem table_rowid_np root rowid : np (table_rowid pg op npages root rowid).
  Proof.
    unfold table_rowid.
    pose proof (open_table_np _ op op_np root) as Hn.
    destruct (open_table _ op root) as [p|e] eqn:E; [|exact Hn].
    set (cb := fun (k : Z) (pl : cell_payload) (s : option cell_payload) => (Stop, if k =? rowid then Some pl else s)).
    (* the state only ever holds payloads of the tree's pages *)
    pose proof (titer_min_ok cell_payload op pl_ok op_np op_ok (option cell_payload) cb
                  ltac:(intros; exact I) rowid max_recursion p None ltac:(eapply open_table_ok; eauto; exact op_ok)) as Hf.
    assert (Hst: forall r pg0 s, gpage_ok cell_payload pl_ok pg0 -> (forall x, s = Some x -> pl_ok x) ->
                 forall x, snd (titer_min cell_payload op (option cell_payload) cb r pg0 rowid s) = Some x -> pl_ok x).
    { induction r as [|r IH]; intros pg0 s Hp Hs x; destruct pg0; cbn [titer_min]; try (apply Hs).
      - unfold tleaf_iter_min. destruct (skipn _ cells) as [|[k pl] rest] eqn:Es; [apply Hs|].
        unfold cb. cbn [snd]. destruct (k =? rowid); [|apply Hs]. intros X; inversion X; subst.
        match type of Es with skipn ?n _ = _ =>
          assert (Hin: In (k, x) cells) by (rewrite <- (firstn_skipn n cells); apply in_or_app; right; rewrite Es; left; reflexivity) end.
        cbn [gpage_ok] in Hp. rewrite Forall_forall in Hp. exact (Hp _ Hin).
      - unfold tleaf_iter_min. destruct (skipn _ cells) as [|[k pl] rest] eqn:Es; [apply Hs|].
        unfold cb. cbn [snd]. destruct (k =? rowid); [|apply Hs]. intros X; inversion X; subst.
        match type of Es with skipn ?n _ = _ =>
          assert (Hin: In (k, x) cells) by (rewrite <- (firstn_skipn n cells); apply in_or_app; right; rewrite Es; left; reflexivity) end.
        cbn [gpage_ok] in Hp. rewrite Forall_forall in Hp. exact (Hp _ Hin).
      - unfold tinterior_iter_min.
        assert (G: forall cs s0, (forall y, s0 = Some y -> pl_ok y) -> forall y,
                   snd (tinterior_iter (option cell_payload)
                          (fun p0 s1 => with_page cell_payload (option cell_payload) (open_table cell_payload op p0) s1
                                          (fun page => titer_min cell_payload op (option cell_payload) cb r page rowid s1)) cs rightmost s0) = Some y -> pl_ok y).
        { assert (Gs: forall p0 s1, (forall y, s1 = Some y -> pl_ok y) -> forall y,
                      snd (with_page cell_payload (option cell_payload) (open_table cell_payload op p0) s1
                             (fun page => titer_min cell_payload op (option cell_payload) cb r page rowid s1)) = Some y -> pl_ok y).
          { intros p0 s1 Hs1 y. unfold with_page. destruct (open_table cell_payload op p0) as [page|e] eqn:Eo; [|apply Hs1].
            apply IH; [eapply open_table_ok; eauto; exact op_ok|exact Hs1]. }
          induction cs as [|[l k] cs IHc]; intros s0 Hs0 y; cbn [tinterior_iter]; [apply Gs; exact Hs0|].
          destruct (with_page _ _ _ s0 _) as [f s1] eqn:Ew. 
          assert (H1: forall y, s1 = Some y -> pl_ok y).
          { intros y0 Hy. apply (Gs l s0 Hs0 y0). rewrite Ew. exact Hy. }
          destruct f; cbn [andthen snd]; [apply IHc; exact H1|apply H1|apply H1]. }
        apply G. exact Hs. }
    destruct (titer_min _ _ _ _ _ _ _ _) as [f st] eqn:Et.
    assert (Hk: forall pl, st = Some pl -> pl_ok pl).
    { intros pl Hs. apply (Hst max_recursion p None ltac:(eapply open_table_ok; eauto; exact op_ok) ltac:(discriminate) pl).
      rewrite Et. exact Hs. }
    destruct f as [| |e].
    - destruct st as [pl0|]; [|reflexivity]. apply np_bind; [apply load_np; apply Hk; reflexivity|reflexivity].
    - destruct st as [pl0|]; [|reflexivity]. apply np_bind; [apply load_np; apply Hk; reflexivity|reflexivity].
    - unfold fl_ok in Hf. cbn in Hf. unfold np. destruct e; try reflexivity; contradiction.
  Qed.

  Theorem master_ok : fl_ok (master pg op npages).
  Proof.
    unfold master.
    pose proof (table_scan_ok (list master_row) 1
                  (fun _ rec acc => match master_of_record rec with Ok m => (Continue, m :: acc) | Err e => (Fail e, acc) end) []) as H.
    destruct (table_scan _ _ _ _ _ _ _) as [f acc]. unfold fl_ok in *. cbn [fst] in *. apply H.
    intros k r s. unfold master_of_record.
    destruct r as [|[] [|[] [|[] [|[] [|[] [|? ?]]]]]]; cbn; exact I.
  Qed.
End LowTotal.

(* ---------- every byte string as a database file ---------- *)
Section Image.
  Variable img : list byte.
  Variable U : Z.
  Hypothesis HU : 512 <= U.

  Lemma image_pager_len n buf : image_pager img U n = Ok buf -> len buf = U.
  Proof.
    unfold image_pager. destruct ((1 <=? n) && (n * U <=? len img)) eqn:E; [|discriminate].
    intros H; inversion H; subst. unfold take, drop, len in *.
    rewrite firstn_length, skipn_length. nia.
  Qed.

  Lemma image_pager_np n : np (image_pager img U n).
  Proof. unfold image_pager. destruct (_ && _); reflexivity. Qed.

  Definition page_numbers : list Z := map (fun i => Z.of_nat i) (seq 1 (image_pages img U)).

  Lemma page_numbers_ok :
    NoDup page_numbers /\ readable (image_pager img U) page_numbers /\ (length page_numbers <= image_pages img U)%nat.
  Proof.
    unfold page_numbers. split; [|split].
    - apply Injective_map_NoDup; [intros a b H; lia|apply seq_NoDup].
    - intros p buf H. unfold image_pager in H. destruct ((1 <=? p) && (p * U <=? len img)) eqn:E; [|discriminate].
      apply in_map_iff. exists (Z.to_nat p). split; [lia|]. apply in_seq. unfold image_pages.
      assert (p <= len img / U) by (apply Z.div_le_lower_bound; lia). lia.
    - rewrite map_length, seq_length. lia.
  Qed.
End Image.

Section ImageOps.
  Variable img : list byte.
  Variable U : Z.
  Hypothesis HU : 512 <= U.
  Let pg := image_pager img U.
  Let n := image_pages img U.

  Theorem image_table_scan_ok S root (cb : Z -> record -> S -> flow * S) s :
    (forall k r s, fl_ok (cb k r s)) -> fl_ok (table_scan pg (openp pg U) n S root cb s).
  Proof.
    apply (table_scan_ok pg U n HU (image_pager_len img U HU) (image_pager_np img U) (page_numbers img U) (page_numbers_ok img U HU)).
  Qed.

  Theorem image_index_scan_ok S root (cb : record -> S -> flow * S) s :
    (forall r s, fl_ok (cb r s)) -> fl_ok (index_scan pg (openp pg U) n S root cb s).
  Proof.
    apply (index_scan_ok pg U n HU (image_pager_len img U HU) (image_pager_np img U) (page_numbers img U) (page_numbers_ok img U HU)).
  Qed.

  Theorem image_index_scan_min_ok S root from (cb : record -> S -> flow * S) s :
    (forall r s, fl_ok (cb r s)) -> fl_ok (index_scan_min pg (openp pg U) n S root from cb s).
  Proof.
    apply (index_scan_min_ok pg U n HU (image_pager_len img U HU) (image_pager_np img U) (page_numbers img U) (page_numbers_ok img U HU)).
  Qed.

  Theorem image_index_scan_eq_ok S root k (cb : record -> S -> flow * S) s :
    (forall r s, fl_ok (cb r s)) -> fl_ok (index_scan_eq pg (openp pg U) n S root k cb s).
  Proof.
    apply (index_scan_eq_ok pg U n HU (image_pager_len img U HU) (image_pager_np img U) (page_numbers img U) (page_numbers_ok img U HU)).
  Qed.

  Theorem image_index_scan_range_ok S root from to (cb : record -> S -> flow * S) s :
    (forall r s, fl_ok (cb r s)) -> fl_ok (index_scan_range pg (openp pg U) n S root from to cb s).
  Proof.
    apply (index_scan_range_ok pg U n HU (image_pager_len img U HU) (image_pager_np img U) (page_numbers img U) (page_numbers_ok img U HU)).
  Qed.

  Theorem image_table_rowid_np root rowid : np (table_rowid pg (openp pg U) n root rowid).
  Proof.
    apply (table_rowid_np pg U n HU (image_pager_len img U HU) (image_pager_np img U) (page_numbers img U) (page_numbers_ok img U HU)).
  Qed.

  Theorem image_master_ok : fl_ok (master pg (openp pg U) n).
  Proof.
    apply (master_ok pg U n HU (image_pager_len img U HU) (image_pager_np img U) (page_numbers img U) (page_numbers_ok img U HU)).
  Qed.
End ImageOps.
