(* C20: isolation of handles under any interleaving; no conflicting accesses. *)
From Coq Require Import List Arith Bool Lia.
From SQ Require Import Model.Conc.
Import ListNotations.

Section P.
  Variables (G F H op res : Type).
  Variable exec : G -> F -> op -> H -> H * res.
  Notation run := (run G F H op res exec).
  Notation alone := (alone G F H op res exec).
  Notation upd := (upd H).

  Lemma upd_same w i h : upd w i h i = h.
  Proof. unfold Conc.upd. rewrite Nat.eqb_refl. reflexivity. Qed.
  Lemma upd_other w i h j : j <> i -> upd w i h j = w j.
  Proof. unfold Conc.upd. intros Hn. destruct (Nat.eqb_spec j i); [contradiction|reflexivity]. Qed.

  (* the state of handle i after a schedule, and the results it got, are those of its
     own operations run alone from its own initial state - whatever the others did *)
  Theorem isolation g f : forall s w i,
    fst (run g f w s) i = fst (alone g f (w i) (ops_of op i s)) /\
    results_of res i (snd (run g f w s)) = snd (alone g f (w i) (ops_of op i s)).
  Proof.
    induction s as [|[j o] rest IH]; intros w i; cbn [Conc.run Conc.alone ops_of results_of filter map fst snd]; [split; reflexivity|].
    destruct (exec g f o (w j)) as [h' r] eqn:Ex.
    destruct (run g f (upd w j h') rest) as [w' rs] eqn:Er.
    specialize (IH (upd w j h') i). rewrite Er in IH. cbn [fst snd] in IH.
    cbn [fst snd filter]. unfold ops_of, results_of in *. cbn [filter fst snd].
    destruct (Nat.eqb_spec j i) as [->|Hn].
    - cbn [map snd Conc.alone]. rewrite Ex. rewrite upd_same in IH.
      destruct (alone g f h' (map snd (filter (fun x => Nat.eqb (fst x) i) rest))) as [h'' rs'] eqn:Ea.
      cbn [fst snd] in *. destruct IH as [A B]. split; [exact A|]. rewrite B. reflexivity.
    - rewrite upd_other in IH by congruence. exact IH.
  Qed.

  (* a goroutine's results do not depend on what the other goroutines' operations are *)
  Corollary independent_of_others g f s1 s2 w i :
    ops_of op i s1 = ops_of op i s2 ->
    results_of res i (snd (run g f w s1)) = results_of res i (snd (run g f w s2)).
  Proof.
    intros E. destruct (isolation g f s1 w i) as [_ A]. destruct (isolation g f s2 w i) as [_ B].
    rewrite A, B, E. reflexivity.
  Qed.

  (* no two accesses of a schedule conflict *)
  Theorem race_free (s : list (nat * op)) a b : In a (accesses op s) -> In b (accesses op s) -> conflict a b = false.
  Proof.
    unfold accesses. intros Ha Hb. apply in_flat_map in Ha. apply in_flat_map in Hb.
    destruct Ha as [[i o] [_ Ha]]. destruct Hb as [[j o'] [_ Hb]]. cbn [fst] in *.
    unfold conflict.
    destruct (Nat.eqb_spec i j) as [->|Hn].
    - destruct Ha as [<-|[<-|[<-|[<-|[]]]]]; destruct Hb as [<-|[<-|[<-|[<-|[]]]]]; cbn; rewrite ?Nat.eqb_refl; reflexivity.
    - assert (Nat.eqb i j = false) as E by (apply Nat.eqb_neq; exact Hn).
      destruct Ha as [<-|[<-|[<-|[<-|[]]]]]; destruct Hb as [<-|[<-|[<-|[<-|[]]]]]; cbn; rewrite ?E; cbn; reflexivity.
  Qed.
End P.
