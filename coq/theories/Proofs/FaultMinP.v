(* C12 for the from-key traversals (IterMin of the four page kinds, with the
   error-remembering bisection): when some page or payload reads fail that
   would have succeeded, a run either equals the fault-free run or fails
   having delivered a prefix of what the fault-free run delivers.
   Proved by simulation, for any callback whose state only grows. *)
From SQ Require Import Model.Base Model.Varint Model.Record Model.Payload Model.Btree
     Model.Page Model.Cmp Model.Low Spec.Flat Spec.Deliver
     Proofs.BtreeP Proofs.DeliverP Proofs.LowP Proofs.FaultP.
From Coq Require Import ZifyBool ZifyNat.

Section FaultMin.
  Variables (P R : Type).
  Variables openp' openp : Z -> res (gpage P).
  Variables load' load : P -> res R.
  Hypothesis Hopen : forall n, le_res (openp' n) (openp n).
  Hypothesis Hload : forall pl, le_res (load' pl) (load pl).
  Variable S : Type.
  Variable ext : S -> S -> Prop.
  Hypothesis ext_refl : forall s, ext s s.
  Hypothesis ext_trans : forall a b c, ext a b -> ext b c -> ext a c.

  (* the faulty outcome is the fault-free one, or a failure in an earlier state *)
  Definition out_le (o' o : flow * S) : Prop := o' = o \/ exists e, fst o' = Fail e /\ ext (snd o') (snd o).
  Definition grows (f : S -> flow * S) : Prop := forall s, ext s (snd (f s)).

  Lemma out_le_refl o : out_le o o.
  Proof. left. reflexivity. Qed.

  Lemma andthen_le o' o k' k : out_le o' o -> (forall s, out_le (k' s) (k s)) -> grows k ->
    out_le (andthen S o' k') (andthen S o k).
  Proof.
    intros [->|(e & He & Hx)] Hk Hg.
    - destruct o as [[| |e] s1]; cbn [andthen]; [apply Hk|left; reflexivity|left; reflexivity].
    - destruct o' as [f' s']. cbn [fst snd] in *. subst f'. cbn [andthen]. right. exists e. split; [reflexivity|].
      cbn [snd]. destruct o as [[| |e0] s1]; cbn [andthen snd] in *; [|assumption|assumption].
      eapply ext_trans; [exact Hx|apply Hg].
  Qed.

  Lemma andthen_grows x k s0 : ext s0 (snd x) -> grows k -> ext s0 (snd (andthen S x k)).
  Proof.
    intros Hx Hg. destruct x as [[| |e] s1]; cbn [andthen snd] in *; [|assumption|assumption].
    eapply ext_trans; [exact Hx|apply Hg].
  Qed.

  Lemma with_page_le (o' o : res (gpage P)) s k' k : le_res o' o ->
    (forall page, out_le (k' page) (k page)) -> (forall page, ext s (snd (k page))) ->
    out_le (with_page P S o' s k') (with_page P S o s k).
  Proof.
    intros [->|(e & ->)] Hk Hg.
    - destruct o as [p|e]; cbn [with_page]; [apply Hk|left; reflexivity].
    - cbn [with_page]. right. exists e. split; [reflexivity|]. cbn [snd].
      destruct o as [p|e0]; cbn [with_page snd]; [apply Hg|apply ext_refl].
  Qed.

  Lemma with_page_grows (o : res (gpage P)) s k : (forall page, ext s (snd (k page))) -> ext s (snd (with_page P S o s k)).
  Proof. intros Hg. destruct o as [p|e]; cbn [with_page snd]; [apply Hg|apply ext_refl]. Qed.

  (* ---------------- index trees ---------------- *)
  (* the callback of the faulty run may itself fail earlier than the fault-free one's (the high level
     callbacks do nested lookups through the same pager) *)
  Variables icb' icb : R -> S -> flow * S.
  Hypothesis icb_le : forall r s, out_le (icb' r s) (icb r s).
  Hypothesis icb_grows : forall r, grows (icb r).

  Lemma emit_le pl s : out_le (emit P R load' S icb' pl s) (emit P R load S icb pl s).
  Proof.
    unfold emit. destruct (Hload pl) as [->|(e & ->)]; [destruct (load pl) as [rec|e0]; [apply icb_le|left; reflexivity]|].
    right. exists e. split; [reflexivity|]. cbn [snd]. destruct (load pl) as [rec|e0]; cbn [snd]; [apply icb_grows|apply ext_refl].
  Qed.
  Lemma emit_grows ld pl : grows (emit P R ld S icb pl).
  Proof. intros s. unfold emit. destruct (ld pl); cbn [snd]; [apply icb_grows|apply ext_refl]. Qed.

  Lemma ileaf_iter_grows ld cells : grows (ileaf_iter P R ld S icb cells).
  Proof.
    induction cells as [|pl rest IH]; intros s; cbn [ileaf_iter snd]; [apply ext_refl|].
    apply andthen_grows; [apply emit_grows|exact IH].
  Qed.
  Lemma ileaf_iter_le cells : forall s, out_le (ileaf_iter P R load' S icb' cells s) (ileaf_iter P R load S icb cells s).
  Proof.
    induction cells as [|pl rest IH]; intros s; cbn [ileaf_iter]; [left; reflexivity|].
    apply andthen_le; [apply emit_le|exact IH|apply ileaf_iter_grows].
  Qed.

  Lemma iinterior_iter_grows ld sub cells rgt : (forall p, grows (sub p)) -> grows (iinterior_iter P R ld S icb sub cells rgt).
  Proof.
    intros Hs. induction cells as [|[lft pl] rest IH]; intros s; cbn [iinterior_iter]; [apply Hs|].
    apply andthen_grows; [apply Hs|]. intros s1. apply andthen_grows; [apply emit_grows|exact IH].
  Qed.
  Lemma iinterior_iter_le sub' sub cells rgt : (forall p s, out_le (sub' p s) (sub p s)) -> (forall p, grows (sub p)) ->
    forall s, out_le (iinterior_iter P R load' S icb' sub' cells rgt s) (iinterior_iter P R load S icb sub cells rgt s).
  Proof.
    intros Hs Hg. induction cells as [|[lft pl] rest IH]; intros s; cbn [iinterior_iter]; [apply Hs|].
    apply andthen_le; [apply Hs| |].
    - intros s1. apply andthen_le; [apply emit_le|exact IH|apply iinterior_iter_grows; exact Hg].
    - intros s1. apply andthen_grows; [apply emit_grows|apply iinterior_iter_grows; exact Hg].
  Qed.

  Lemma iiter_grows op ld r : forall pg, grows (iiter P R op ld S icb r pg).
  Proof.
    induction r as [|r IH]; intros pg s; destruct pg as [c|c g|c|c g]; cbn [iiter snd]; try apply ext_refl;
      try apply ileaf_iter_grows.
    apply iinterior_iter_grows. intros p s1. apply with_page_grows. intros page. apply IH.
  Qed.
  Lemma iiter_le r : forall pg s, out_le (iiter P R openp' load' S icb' r pg s) (iiter P R openp load S icb r pg s).
  Proof.
    induction r as [|r IH]; intros pg s; destruct pg as [c|c g|c|c g]; cbn [iiter]; try apply out_le_refl;
      try apply ileaf_iter_le.
    apply iinterior_iter_le.
    - intros p s1. apply with_page_le; [apply open_index_le; exact Hopen|intros page; apply IH|intros page; apply iiter_grows].
    - intros p s1. apply with_page_grows. intros page. apply iiter_grows.
  Qed.

  (* the bisection with failing probes *)
  Lemma search_some fuel f : forall i j e, snd (search_fuel_e fuel f i j (Some e)) <> None.
  Proof.
    induction fuel as [|k IH]; intros i j e; cbn [search_fuel_e snd]; [discriminate|].
    destruct (Nat.ltb i j); [|cbn; discriminate].
    destruct (f (Nat.div (i + j) 2)) as [[|]|x]; try apply IH.
    unfold merge_err. destruct (sticky e); apply IH.
  Qed.
  Lemma search_le fuel f' f : (forall i, le_res (f' i) (f i)) -> forall i j e,
    search_fuel_e fuel f' i j e = search_fuel_e fuel f i j e \/ snd (search_fuel_e fuel f' i j e) <> None.
  Proof.
    intros Hf. induction fuel as [|k IH]; intros i j e; cbn [search_fuel_e]; [left; reflexivity|].
    destruct (Nat.ltb i j); [|left; reflexivity].
    destruct (Hf (Nat.div (i + j) 2)) as [->|(x & ->)].
    - destruct (f (Nat.div (i + j) 2)) as [[|]|x]; apply IH.
    - right. unfold merge_err. destruct e as [e0|]; [destruct (sticky e0)|]; apply search_some.
  Qed.

  Variable pred : R -> bool.

  Lemma bin_search_le pl : le_res (bin_search P R load' pred pl) (bin_search P R load pred pl).
  Proof.
    unfold bin_search. destruct (Hload pl) as [->|(e & ->)]; [left; reflexivity|right; exists e; reflexivity].
  Qed.

  Lemma ileaf_iter_min_grows ld cells : grows (ileaf_iter_min P R ld S icb pred cells).
  Proof.
    intros s. unfold ileaf_iter_min. destruct (sort_search_e _ _) as [n [x|]]; cbn [snd]; [apply ext_refl|apply ileaf_iter_grows].
  Qed.
  Lemma ileaf_iter_min_le cells s :
    out_le (ileaf_iter_min P R load' S icb' pred cells s) (ileaf_iter_min P R load S icb pred cells s).
  Proof.
    unfold ileaf_iter_min, sort_search_e.
    destruct (search_le (length cells)
                (fun i => match nth_error cells i with Some pl => bin_search P R load' pred pl | None => Ok true end)
                (fun i => match nth_error cells i with Some pl => bin_search P R load pred pl | None => Ok true end)
                ltac:(intros i; cbv beta; destruct (nth_error cells i); [apply bin_search_le|left; reflexivity]) 0%nat (length cells) None) as [->|Hn].
    - destruct (search_fuel_e _ _ _ _ _) as [n [x|]]; [left; reflexivity|apply ileaf_iter_le].
    - destruct (search_fuel_e (length cells) (fun i => match nth_error cells i with Some pl => bin_search P R load' pred pl | None => Ok true end) _ _ _) as [n' [x|]];
        [|exfalso; apply Hn; reflexivity].
      right. exists x. split; [reflexivity|]. cbn [snd].
      destruct (search_fuel_e _ _ _ _ _) as [n [y|]]; cbn [snd]; [apply ext_refl|apply ileaf_iter_grows].
  Qed.

  Lemma iinterior_iter_min_grows ld sub_min sub_iter cells rgt : (forall p, grows (sub_min p)) -> (forall p, grows (sub_iter p)) ->
    grows (iinterior_iter_min P R ld S icb pred sub_min sub_iter cells rgt).
  Proof.
    intros Hm Hi s. unfold iinterior_iter_min. destruct (sort_search_e _ _) as [n [x|]]; cbn [snd]; [apply ext_refl|].
    destruct (skipn n cells) as [|[lft pl] rest]; [apply Hm|].
    apply andthen_grows; [apply Hm|]. intros s1. apply andthen_grows; [apply emit_grows|apply iinterior_iter_grows; exact Hi].
  Qed.
  Lemma iinterior_iter_min_le sub_min' sub_min sub_iter' sub_iter cells rgt s :
    (forall p s, out_le (sub_min' p s) (sub_min p s)) -> (forall p, grows (sub_min p)) ->
    (forall p s, out_le (sub_iter' p s) (sub_iter p s)) -> (forall p, grows (sub_iter p)) ->
    out_le (iinterior_iter_min P R load' S icb' pred sub_min' sub_iter' cells rgt s)
           (iinterior_iter_min P R load S icb pred sub_min sub_iter cells rgt s).
  Proof.
    intros Hm Hmg Hi Hig.
    pose proof (iinterior_iter_min_grows load sub_min sub_iter cells rgt Hmg Hig s) as Hgrow.
    unfold iinterior_iter_min, sort_search_e in *.
    destruct (search_le (length cells)
                (fun i => match nth_error cells i with Some (_, pl) => bin_search P R load' pred pl | None => Ok true end)
                (fun i => match nth_error cells i with Some (_, pl) => bin_search P R load pred pl | None => Ok true end)
                ltac:(intros i; cbv beta; destruct (nth_error cells i) as [[? ?]|]; [apply bin_search_le|left; reflexivity]) 0%nat (length cells) None) as [->|Hn].
    - destruct (search_fuel_e _ _ _ _ _) as [n [x|]]; [left; reflexivity|].
      destruct (skipn n cells) as [|[lft pl] rest]; [apply Hm|].
      apply andthen_le; [apply Hm| |].
      + intros s1. apply andthen_le; [apply emit_le|apply iinterior_iter_le; assumption|apply iinterior_iter_grows; exact Hig].
      + intros s1. apply andthen_grows; [apply emit_grows|apply iinterior_iter_grows; exact Hig].
    - destruct (search_fuel_e (length cells) (fun i => match nth_error cells i with Some (_, pl) => bin_search P R load' pred pl | None => Ok true end) _ _ _) as [n' [x|]];
        [|exfalso; apply Hn; reflexivity].
      right. exists x. split; [reflexivity|]. exact Hgrow.
  Qed.

  Lemma iiter_min_grows op ld r : forall pg, grows (iiter_min P R op ld S icb pred r pg).
  Proof.
    induction r as [|r IH]; intros pg s; destruct pg as [c|c g|c|c g]; cbn [iiter_min snd]; try apply ext_refl;
      try apply ileaf_iter_min_grows.
    apply iinterior_iter_min_grows; intros p s1; apply with_page_grows; intros page; [apply IH|apply iiter_grows].
  Qed.
  Theorem iiter_min_le r : forall pg s,
    out_le (iiter_min P R openp' load' S icb' pred r pg s) (iiter_min P R openp load S icb pred r pg s).
  Proof.
    induction r as [|r IH]; intros pg s; destruct pg as [c|c g|c|c g]; cbn [iiter_min]; try apply out_le_refl;
      try apply ileaf_iter_min_le.
    apply iinterior_iter_min_le.
    - intros p s1. apply with_page_le; [apply open_index_le; exact Hopen|intros page; apply IH|intros page; apply iiter_min_grows].
    - intros p s1. apply with_page_grows. intros page. apply iiter_min_grows.
    - intros p s1. apply with_page_le; [apply open_index_le; exact Hopen|intros page; apply iiter_le|intros page; apply iiter_grows].
    - intros p s1. apply with_page_grows. intros page. apply iiter_grows.
  Qed.

  (* ---------------- table trees ---------------- *)
  Variables tcb' tcb : Z -> P -> S -> flow * S.
  Hypothesis tcb_le : forall k pl s, out_le (tcb' k pl s) (tcb k pl s).
  Hypothesis tcb_grows : forall k pl, grows (tcb k pl).

  Lemma tleaf_iter_grows cells : grows (tleaf_iter P S tcb cells).
  Proof.
    induction cells as [|[k pl] rest IH]; intros s; cbn [tleaf_iter snd]; [apply ext_refl|].
    apply andthen_grows; [apply tcb_grows|exact IH].
  Qed.
  Lemma tleaf_iter_le cells : forall s, out_le (tleaf_iter P S tcb' cells s) (tleaf_iter P S tcb cells s).
  Proof.
    induction cells as [|[k pl] rest IH]; intros s; cbn [tleaf_iter]; [left; reflexivity|].
    apply andthen_le; [apply tcb_le|exact IH|apply tleaf_iter_grows].
  Qed.
  Lemma tinterior_iter_grows sub cells rgt : (forall p, grows (sub p)) -> grows (tinterior_iter S sub cells rgt).
  Proof.
    intros Hs. induction cells as [|[lft k] rest IH]; intros s; cbn [tinterior_iter]; [apply Hs|].
    apply andthen_grows; [apply Hs|exact IH].
  Qed.
  Lemma tinterior_iter_le sub' sub cells rgt : (forall p s, out_le (sub' p s) (sub p s)) -> (forall p, grows (sub p)) ->
    forall s, out_le (tinterior_iter S sub' cells rgt s) (tinterior_iter S sub cells rgt s).
  Proof.
    intros Hs Hg. induction cells as [|[lft k] rest IH]; intros s; cbn [tinterior_iter]; [apply Hs|].
    apply andthen_le; [apply Hs|exact IH|apply tinterior_iter_grows; exact Hg].
  Qed.
  Lemma titer_grows op r : forall pg, grows (titer P op S tcb r pg).
  Proof.
    induction r as [|r IH]; intros pg s; destruct pg as [c|c g|c|c g]; cbn [titer snd]; try apply ext_refl;
      try apply tleaf_iter_grows.
    apply tinterior_iter_grows. intros p s1. apply with_page_grows. intros page. apply IH.
  Qed.
  Lemma titer_le r : forall pg s, out_le (titer P openp' S tcb' r pg s) (titer P openp S tcb r pg s).
  Proof.
    induction r as [|r IH]; intros pg s; destruct pg as [c|c g|c|c g]; cbn [titer]; try apply out_le_refl;
      try apply tleaf_iter_le.
    apply tinterior_iter_le.
    - intros p s1. apply with_page_le; [apply open_table_le; exact Hopen|intros page; apply IH|intros page; apply titer_grows].
    - intros p s1. apply with_page_grows. intros page. apply titer_grows.
  Qed.
  Lemma tleaf_iter_min_grows cells rowid : grows (tleaf_iter_min P S tcb cells rowid).
  Proof.
    intros s. unfold tleaf_iter_min. destruct (skipn _ cells) as [|[k pl] rest]; cbn [snd]; [apply ext_refl|apply tcb_grows].
  Qed.
  Lemma tleaf_iter_min_le cells rowid s : out_le (tleaf_iter_min P S tcb' cells rowid s) (tleaf_iter_min P S tcb cells rowid s).
  Proof.
    unfold tleaf_iter_min. destruct (skipn _ cells) as [|[k pl] rest]; [left; reflexivity|apply tcb_le].
  Qed.
  Lemma titer_min_grows op r rowid : forall pg, grows (fun s => titer_min P op S tcb r pg rowid s).
  Proof.
    induction r as [|r IH]; intros pg s; destruct pg as [c|c g|c|c g]; cbn [titer_min snd]; try apply ext_refl;
      try apply tleaf_iter_min_grows.
    unfold tinterior_iter_min. apply tinterior_iter_grows. intros p s1. apply with_page_grows. intros page. apply IH.
  Qed.
  Theorem titer_min_le r rowid : forall pg s,
    out_le (titer_min P openp' S tcb' r pg rowid s) (titer_min P openp S tcb r pg rowid s).
  Proof.
    induction r as [|r IH]; intros pg s; destruct pg as [c|c g|c|c g]; cbn [titer_min]; try apply out_le_refl;
      try apply tleaf_iter_min_le.
    unfold tinterior_iter_min. apply tinterior_iter_le.
    - intros p s1. apply with_page_le; [apply open_table_le; exact Hopen|intros page; apply IH|intros page; apply (titer_min_grows openp r rowid page)].
    - intros p s1. apply with_page_grows. intros page. apply (titer_min_grows openp r rowid page).
  Qed.
End FaultMin.

(* ---- instantiation: two pagers that differ only by failing reads ---- *)
Definition lext {A} (a b : list A) : Prop := exists rest, b = rest ++ a.   (* collected rows, newest first *)
Lemma lext_refl {A} (a : list A) : lext a a.
Proof. exists []. reflexivity. Qed.
Lemma lext_trans {A} (a b c : list A) : lext a b -> lext b c -> lext a c.
Proof. intros [r1 ->] [r2 ->]. exists (r2 ++ r1). rewrite app_assoc. reflexivity. Qed.

Section PagerFaultMin.
  Variables pg' pg : Z -> res (list byte).
  Variables op' op : Z -> res page.
  Variable npages : nat.
  Hypothesis Hpg : forall n, le_res (pg' n) (pg n).
  Hypothesis Hop : forall n, le_res (op' n) (op n).
  Notation rows := (list record).
  Notation ole := (out_le rows lext).

  (* Index.ScanMin with any callback that only adds to what it has collected (any early stop included) *)
  Theorem index_scan_min_fault root from (cb : record -> rows -> flow * rows) : (forall r, grows rows lext (cb r)) ->
    forall s, ole (index_scan_min pg' op' npages _ root from cb s) (index_scan_min pg op npages _ root from cb s).
  Proof.
    intros Hcb s. unfold index_scan_min.
    destruct (open_index_le _ _ _ Hop root) as [->|(e & ->)].
    - destruct (open_index _ op root) as [p|e]; [|left; reflexivity].
      apply (iiter_min_le cell_payload record op' op (load pg' npages) (load pg npages) Hop (load_le pg' pg npages Hpg)
               rows lext lext_refl lext_trans cb cb (fun _ _ => out_le_refl _ _ _) Hcb).
    - right. exists e. split; [reflexivity|]. cbn [snd].
      destruct (open_index _ op root) as [p|e0]; cbn [snd]; [|apply lext_refl].
      apply (iiter_min_grows cell_payload record rows lext lext_refl lext_trans cb Hcb).
  Qed.

  Theorem index_scan_range_fault root from to (cb : record -> rows -> flow * rows) : (forall r, grows rows lext (cb r)) ->
    forall s, ole (index_scan_range pg' op' npages _ root from to cb s) (index_scan_range pg op npages _ root from to cb s).
  Proof.
    intros Hcb s. unfold index_scan_range. apply index_scan_min_fault.
    intros r s0. destruct (search to r); cbn [snd]; [apply lext_refl|apply Hcb].
  Qed.

  Theorem index_scan_eq_fault root k (cb : record -> rows -> flow * rows) : (forall r, grows rows lext (cb r)) ->
    forall s, ole (index_scan_eq pg' op' npages _ root k cb s) (index_scan_eq pg op npages _ root k cb s).
  Proof.
    intros Hcb s. unfold index_scan_eq. apply index_scan_min_fault.
    intros r s0. destruct (equals k r); cbn [snd]; [apply Hcb|apply lext_refl].
  Qed.

  Lemma stop_after_grows k (r : record) : grows rows lext (stop_after k r).
  Proof. intros s. unfold stop_after. exists [r]. destruct k as [n|]; [destruct (Nat.leb n _)|]; reflexivity. Qed.

  (* Table.Rowid: the fault-free answer, or an error - never "not found" for a row that is there,
     never another row *)
  Theorem table_rowid_fault root rowid :
    le_res (table_rowid pg' op' npages root rowid) (table_rowid pg op npages root rowid).
  Proof.
    unfold table_rowid.
    destruct (open_table_le _ _ _ Hop root) as [->|(e & ->)]; [|right; exists e; reflexivity].
    destruct (open_table _ op root) as [p|e]; [|left; reflexivity].
    destruct (titer_min_le cell_payload op' op Hop (option cell_payload) (fun _ _ => True) (fun _ => I) (fun _ _ _ _ _ => I)
                (fun k pl s => (Stop, if k =? rowid then Some pl else s)) (fun k pl s => (Stop, if k =? rowid then Some pl else s))
                (fun _ _ _ => out_le_refl _ _ _) (fun _ _ _ => I) max_recursion rowid p None) as [->|(e & He & _)].
    - destruct (titer_min _ op _ _ _ _ _ _) as [[| |e] [pl|]]; try (left; reflexivity).
      + destruct (load_le pg' pg npages Hpg pl) as [->|(e & ->)]; [left; reflexivity|right; exists e; reflexivity].
      + destruct (load_le pg' pg npages Hpg pl) as [->|(e & ->)]; [left; reflexivity|right; exists e; reflexivity].
    - destruct (titer_min _ op' _ _ _ _ _ _) as [f' s']. cbn [fst] in He. subst f'. right. exists e. reflexivity.
  Qed.
End PagerFaultMin.
