(* Same-process handles: POSIX locks belong to the process, so the invariants
   of LockP (one actor per process) fail when two handles share a process.
   Witnesses by computation. *)
From Coq Require Import List Arith Bool.
From SQ Require Import Model.Lock.
Import ListNotations.

(* processes: 0 hosts handles 0 and 1, process 1 hosts the SQLite writer *)
Definition hpid2 (h : nat) : pid := 0.
Definition wpid2 (w : nat) : pid := 1.
Definition reader_locks := [HLock1 0; HLock2 0; HLock3 0; HPage 0].
Definition writer_to_reserved := [WS1 0; WS2 0; WS3 0; WRes 0].
Definition writer_commit := [WPend 0; WExcl 0; WWrite 0].

Definition is_write (e : event) : bool := match e with EvWrite _ => true | _ => false end.

(* control: with only handle 0 the writer cannot reach EXCLUSIVE while 0 is locked *)
Example single_handle_blocks_writer :
  let s := run 2 hpid2 wpid2 (reader_locks ++ writer_to_reserved ++ writer_commit ++ [HPage 0]) in
  hst s 0 = HLocked /\ wst s 0 = WPending /\ existsb is_write (evs s) = false.
Proof. vm_compute. repeat split; reflexivity. Qed.

(* handle 1 of the same process unlocks: the writer commits while handle 0 still reads *)
Example same_process_unlock_refutes :
  let s := run 2 hpid2 wpid2 (reader_locks ++ [HLock1 1; HLock2 1; HLock3 1; HUnlock 1] ++ writer_to_reserved ++ writer_commit ++ [HPage 0]) in
  hst s 0 = HLocked /\ wst s 0 = WExclusive /\ existsb is_write (evs s) = true.
Proof. vm_compute. repeat split; reflexivity. Qed.

(* handle 1 of the same process is closed: closing any descriptor drops the process's locks *)
Example same_process_close_refutes :
  let s := run 2 hpid2 wpid2 (reader_locks ++ [HClose 1] ++ writer_to_reserved ++ writer_commit ++ [HPage 0]) in
  hst s 0 = HLocked /\ wst s 0 = WExclusive /\ existsb is_write (evs s) = true.
Proof. vm_compute. repeat split; reflexivity. Qed.
