(* The operations of db/low.go in terms of the rows of the tree:
   Table.Scan / Index.Scan deliver the in-order flattening, ScanMin / ScanRange
   / ScanEq deliver suffixes / segments of it, Table.Rowid is a lookup. *)
From SQ Require Import Model.Base Model.Varint Model.Record Model.Payload Model.Btree
     Model.Page Model.Cmp Model.Low Spec.Flat Spec.Deliver
     Proofs.SearchP Proofs.BtreeP Proofs.BtreeMinP Proofs.DeliverP.
From Coq Require Import ZifyBool ZifyNat Sorted.

Section Rows.
  (* decoding the payloads of the rows of a table tree, in order, up to the
     first failure *)
  Variable P : Type.
  Variable R : Type.
  Variable load : P -> res R.

  Fixpoint load_rows (l : list (Z * P)) : flat (Z * R) :=
    match l with
    | [] => ([], None)
    | (k, pl) :: rest =>
      match load pl with
      | Err e => ([], Some e)
      | Ok rec => let '(l', oe) := load_rows rest in ((k, rec) :: l', oe)
      end
    end.

  Definition trows (f : flat (Z * P)) : flat (Z * R) :=
    let '(l, oe) := f in
    let '(l', oe') := load_rows l in
    (l', match oe' with Some e => Some e | None => oe end).

  Variable S : Type.
  Variable cb : Z -> R -> S -> flow * S.

  Lemma run_flat_load f s :
    run_flat (fun (x : Z * P) s => match load (snd x) with
                                   | Ok rec => cb (fst x) rec s
                                   | Err e => (Fail e, s) end) f s
    = run_flat (fun (x : Z * R) s => cb (fst x) (snd x) s) (trows f) s.
  Proof.
    destruct f as [l oe]. unfold trows. revert s.
    induction l as [|[k pl] l IH]; intros s; cbn [load_rows].
    - reflexivity.
    - destruct (load pl) as [rec|e] eqn:El.
      + specialize (IH). destruct (load_rows l) as [l' oe'].
        unfold run_flat in *. cbn [fst snd run_cb] in *. rewrite El.
        rewrite !andthen_assoc.
        destruct (cb k rec s) as [[| |e] s']; cbn [Btree.andthen]; auto.
      + unfold run_flat. cbn [fst snd run_cb]. rewrite El. reflexivity.
  Qed.
End Rows.

Arguments load_rows {P R}. Arguments trows {P R}.

Section LowP.
  Variable pg : Z -> res (list byte).
  Variable op : Z -> res page.   (* Database.openPage: the parsed page n *)
  Variable npages : nat.

  Notation load := (load pg npages).

  (* the rows of the table / index rooted at [root]: what a full decode of the
     tree yields, in order, with the first error met (if any) *)
  Definition table_rows (root : Z) : flat (Z * record) :=
    match open_table _ op root with
    | Err e => ([], Some e)
    | Ok p => trows load (tflat _ op max_recursion p)
    end.

  Definition index_rows (root : Z) : flat record :=
    match open_index _ op root with
    | Err e => ([], Some e)
    | Ok p => iflat _ _ op load max_recursion p
    end.

  Section CB.
    Variable S : Type.

    Theorem table_scan_rows root (cb : Z -> record -> S -> flow * S) s :
      table_scan pg op npages S root cb s
      = run_flat (fun x s => cb (fst x) (snd x) s) (table_rows root) s.
    Proof.
      unfold table_scan, table_rows. destruct (open_table _ op root) as [p|e]; [|reflexivity].
      rewrite titer_flat. apply (run_flat_load _ _ load S cb).
    Qed.

    Theorem index_scan_rows root (cb : record -> S -> flow * S) s :
      index_scan pg op npages S root cb s = run_flat cb (index_rows root) s.
    Proof.
      unfold index_scan, index_rows. destruct (open_index _ op root) as [p|e]; [|reflexivity].
      apply iiter_flat.
    Qed.

    Theorem index_scan_min_rows root from (cb : record -> S -> flow * S) l s :
      index_rows root = (l, None) -> mono (search from) l ->
      index_scan_min pg op npages S root from cb s = run_cb cb (drop_lt (search from) l) s.
    Proof.
      unfold index_scan_min, index_rows. destruct (open_index _ op root) as [p|e]; [|discriminate].
      intros Hl Hm. apply iiter_min_flat; assumption.
    Qed.

    Lemma run_cb_ext {A} (f g : A -> S -> flow * S) l : (forall x s, f x s = g x s) ->
      forall s, run_cb f l s = run_cb g l s.
    Proof.
      intros H. induction l as [|x l IH]; intros s; cbn [run_cb]; [reflexivity|].
      rewrite H. destruct (g x s) as [[| |e] s']; cbn [Btree.andthen]; auto.
    Qed.

    Theorem index_scan_range_rows root from to (cb : record -> S -> flow * S) l s :
      index_rows root = (l, None) -> mono (search from) l ->
      outcome (index_scan_range pg op npages S root from to cb s)
      = outcome (run_cb cb (take_while (fun r => negb (search to r)) (drop_lt (search from) l)) s).
    Proof.
      intros Hl Hm. unfold index_scan_range. rewrite (index_scan_min_rows _ _ _ l); try assumption.
      rewrite <- until_take_while. f_equal.
    Qed.

    Theorem index_scan_eq_rows root k (cb : record -> S -> flow * S) l s :
      index_rows root = (l, None) -> mono (search k) l ->
      outcome (index_scan_eq pg op npages S root k cb s)
      = outcome (run_cb cb (take_while (equals k) (drop_lt (search k) l)) s).
    Proof.
      intros Hl Hm. unfold index_scan_eq. rewrite (index_scan_min_rows _ _ _ l); try assumption.
      rewrite (run_cb_ext _ (until (fun r => negb (equals k r)) cb)).
      - rewrite until_take_while. f_equal. f_equal.
        clear. induction (drop_lt (search k) l) as [|x r IH]; cbn [take_while]; [reflexivity|].
        destruct (equals k x); cbn [negb]; [f_equal; exact IH|reflexivity].
      - intros x s0. unfold until. destruct (equals k x); reflexivity.
    Qed.
  End CB.

  (* ---- Table.Rowid ---- *)
  Definition lookup_pl (rowid : Z) (l : list (Z * cell_payload)) : option (Z * cell_payload) :=
    find (fun x => fst x =? rowid) l.

  Lemma sorted_mono_tpred rowid (l : list (Z * cell_payload)) :
    StronglySorted Z.lt (map fst l) -> mono (tpred cell_payload rowid) l.
  Proof.
    induction l as [|x l IH]; intros Hs.
    - exists [], []. repeat split; constructor.
    - cbn [map] in Hs. inversion Hs as [|? ? Hs' Hall]; subst.
      destruct (Z.leb_spec rowid (fst x)) as [Hle|Hlt].
      + exists [], (x :: l). split; [reflexivity|]. split; [constructor|].
        constructor; [unfold tpred; lia|].
        rewrite Forall_forall. intros y Hy. unfold tpred.
        rewrite Forall_forall in Hall. specialize (Hall (fst y) (in_map fst _ _ Hy)). lia.
      + destruct (IH Hs') as (lo & hi & -> & Hlo & Hhi).
        exists (x :: lo), hi. split; [reflexivity|]. split; [|exact Hhi].
        constructor; [unfold tpred; lia|exact Hlo].
  Qed.

  Lemma sorted_drop_lookup rowid (l : list (Z * cell_payload)) :
    StronglySorted Z.lt (map fst l) ->
    lookup_pl rowid l =
    match drop_lt (tpred cell_payload rowid) l with
    | [] => None
    | x :: _ => if fst x =? rowid then Some x else None
    end.
  Proof.
    induction l as [|x l IH]; intros Hs; [reflexivity|].
    cbn [map] in Hs. inversion Hs as [|? ? Hs' Hall]; subst.
    cbn [drop_lt]. unfold lookup_pl. cbn [find]. unfold tpred at 1.
    destruct (Z.leb_spec rowid (fst x)) as [Hle|Hlt].
    - destruct (Z.eqb_spec (fst x) rowid) as [He|Hne]; [reflexivity|].
      (* everything later is bigger than x, hence than rowid *)
      assert (Hn: forall l', Forall (Z.lt (fst x)) (map fst l') -> find (fun y : Z * cell_payload => fst y =? rowid) l' = None).
      { induction l' as [|y l' IH']; intros Hf; [reflexivity|]. cbn [map] in Hf. inversion Hf; subst.
        cbn [find]. destruct (Z.eqb_spec (fst y) rowid); [lia|]. auto. }
      apply Hn. exact Hall.
    - destruct (Z.eqb_spec (fst x) rowid); [lia|]. apply IH. exact Hs'.
  Qed.

  (* the full statement of C04 at the low level: under the table-tree
     well-formedness (keys ascending, separators bound their left subtrees)
     Table.Rowid is the lookup in the tree's rows, for every rowid *)
  Theorem table_rowid_lookup root rowid p l :
    open_table _ op root = Ok p ->
    tflat _ op max_recursion p = (l, None) ->
    StronglySorted Z.lt (map fst l) ->
    sep_ok cell_payload op rowid max_recursion p ->
    table_rowid pg op npages root rowid =
    match lookup_pl rowid l with
    | None => Ok None
    | Some (_, pl) => do rec <- load pl; Ok (nonempty rec)
    end.
  Proof.
    intros Hop Hfl Hs Hsep. unfold table_rowid. rewrite Hop.
    rewrite (titer_min_spec cell_payload op (option cell_payload) _ rowid) with (l := l);
      [| intros k pl s; cbn; discriminate | exact Hfl | apply sorted_mono_tpred; exact Hs | exact Hsep].
    rewrite sorted_drop_lookup by exact Hs. unfold tmin_spec.
    destruct (drop_lt (tpred cell_payload rowid) l) as [|[k pl] rest]; [reflexivity|].
    cbn [fst snd]. destruct (k =? rowid); reflexivity.
  Qed.
End LowP.
