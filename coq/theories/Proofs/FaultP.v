(* Read failures (C12): when some page reads fail that would have succeeded,
   the rows of a tree become a prefix of the fault-free rows followed by an
   error - or stay the same when no failing page is touched. *)
From SQ Require Import Model.Base Model.Varint Model.Record Model.Payload Model.Btree
     Model.Page Model.Cmp Model.Low Spec.Flat Spec.Deliver
     Proofs.BtreeP Proofs.DeliverP Proofs.LowP.
From Coq Require Import ZifyBool ZifyNat.

(* x' is x, or a failure *)
Definition le_res {A} (x' x : res A) : Prop := x' = x \/ exists e, x' = Err e.

(* f' is f, or an error after a prefix of f's rows *)
Definition flat_le {A} (f' f : flat A) : Prop :=
  f' = f \/ exists e rest, snd f' = Some e /\ fst f = fst f' ++ rest.

Lemma flat_le_refl {A} (f : flat A) : flat_le f f.
Proof. left. reflexivity. Qed.

Lemma flat_le_err {A} e (f : flat A) : flat_le ([], Some e) f.
Proof. right. exists e, (fst f). split; reflexivity. Qed.

Lemma flat_le_app {A} (a' a : flat A) b' b :
  flat_le a' a -> flat_le (b' tt) (b tt) -> flat_le (flat_app a' b') (flat_app a b).
Proof.
  intros [->|(e & rest & He & Hr)] Hb.
  - destruct a as [l [e|]]; cbn [flat_app]; [left; reflexivity|].
    destruct Hb as [->|(e & rest & He & Hr)]; [left; reflexivity|].
    destruct (b' tt) as [l2' oe']. destruct (b tt) as [l2 oe]. cbn [fst snd] in *. subst.
    right. exists e, rest. cbn [fst snd]. split; [reflexivity|]. rewrite app_assoc. reflexivity.
  - destruct a' as [l' oe']. destruct a as [l oe]. cbn [fst snd] in *. subst. cbn [flat_app].
    right. destruct oe as [e0|].
    + exists e, rest. split; reflexivity.
    + destruct (b tt) as [l2 oe2]. exists e, (rest ++ l2). cbn [fst snd]. split; [reflexivity|].
      rewrite app_assoc. reflexivity.
Qed.

Lemma flat_le_cons {A} (x : A) (f' f : flat A) :
  flat_le f' f -> flat_le (let '(l, oe) := f' in (x :: l, oe)) (let '(l, oe) := f in (x :: l, oe)).
Proof.
  destruct f' as [l' oe'], f as [l oe]. intros [H|(e & rest & He & Hr)].
  - inversion H; subst. left. reflexivity.
  - cbn [fst snd] in *. subst. right. exists e, rest. split; reflexivity.
Qed.

Section Fault.
  Variable P : Type.
  Variable R : Type.
  Variables openp' openp : Z -> res (gpage P).
  Variables load' load : P -> res R.
  Hypothesis Hopen : forall n, le_res (openp' n) (openp n).
  Hypothesis Hload : forall pl, le_res (load' pl) (load pl).

  Lemma open_table_le n : le_res (open_table P openp' n) (open_table P openp n).
  Proof.
    unfold open_table. destruct (Hopen n) as [->|(e & ->)]; [left; reflexivity|right; exists e; reflexivity].
  Qed.
  Lemma open_index_le n : le_res (open_index P openp' n) (open_index P openp n).
  Proof.
    unfold open_index. destruct (Hopen n) as [->|(e & ->)]; [left; reflexivity|right; exists e; reflexivity].
  Qed.

  Theorem tflat_fault : forall r pg, flat_le (tflat P openp' r pg) (tflat P openp r pg).
  Proof.
    induction r as [|r IH]; intros pg; destruct pg as [cells|cells rgt|cells|cells rgt];
      cbn [tflat]; try apply flat_le_refl.
    assert (Hsub: forall p, flat_le (tsub P openp' (tflat P openp' r) p) (tsub P openp (tflat P openp r) p)).
    { intros p. unfold tsub. destruct (open_table_le p) as [->|(e & ->)].
      - destruct (open_table P openp p); [apply IH|apply flat_le_refl].
      - apply flat_le_err. }
    induction cells as [|[lft key] cells IHc]; cbn [tflat_cells]; [apply Hsub|].
    apply flat_le_app; [apply Hsub|exact IHc].
  Qed.

  Lemma load_all_fault cells : flat_le (load_all P R load' cells) (load_all P R load cells).
  Proof.
    induction cells as [|pl cells IH]; cbn [load_all]; [apply flat_le_refl|].
    destruct (Hload pl) as [->|(e & ->)]; [|apply flat_le_err].
    destruct (load pl) as [rec|e]; [|apply flat_le_refl].
    apply (flat_le_cons rec). exact IH.
  Qed.

  Theorem iflat_fault : forall r pg, flat_le (iflat P R openp' load' r pg) (iflat P R openp load r pg).
  Proof.
    induction r as [|r IH]; intros pg; destruct pg as [cells|cells rgt|cells|cells rgt];
      cbn [iflat]; try apply flat_le_refl; try apply load_all_fault.
    assert (Hsub: forall p, flat_le (isub P R openp' (iflat P R openp' load' r) p)
                                    (isub P R openp (iflat P R openp load r) p)).
    { intros p. unfold isub. destruct (open_index_le p) as [->|(e & ->)].
      - destruct (open_index P openp p); [apply IH|apply flat_le_refl].
      - apply flat_le_err. }
    induction cells as [|[lft pl] cells IHc]; cbn [iflat_cells]; [apply Hsub|].
    apply flat_le_app; [apply Hsub|].
    destruct (Hload pl) as [->|(e & ->)]; [|apply flat_le_err].
    destruct (load pl) as [rec|e]; [|apply flat_le_refl].
    apply (flat_le_cons rec). exact IHc.
  Qed.

  Lemma load_rows_fault (l : list (Z * P)) : flat_le (load_rows load' l) (load_rows load l).
  Proof.
    induction l as [|[k pl] l IH]; cbn [load_rows]; [apply flat_le_refl|].
    destruct (Hload pl) as [->|(e & ->)]; [|apply flat_le_err].
    destruct (load pl) as [rec|e]; [|apply flat_le_refl].
    apply (flat_le_cons (k, rec)). exact IH.
  Qed.

  Lemma load_rows_app (ld : P -> res R) (a b : list (Z * P)) :
    load_rows ld (a ++ b) =
    match load_rows ld a with
    | (la, Some e) => (la, Some e)
    | (la, None) => let '(lb, oe) := load_rows ld b in (la ++ lb, oe)
    end.
  Proof.
    induction a as [|[k pl] a IH]; cbn [app load_rows].
    - destruct (load_rows ld b); reflexivity.
    - destruct (ld pl) as [rec|e]; [|reflexivity]. rewrite IH.
      destruct (load_rows ld a) as [la [e|]]; [reflexivity|].
      destruct (load_rows ld b); reflexivity.
  Qed.

  Theorem trows_fault (f' f : flat (Z * P)) : flat_le f' f -> flat_le (trows load' f') (trows load f).
  Proof.
    intros [->|(e & rest & He & Hr)].
    - destruct f as [l oe]. unfold trows.
      destruct (load_rows_fault l) as [->|(e & rest & He & Hr)].
      + apply flat_le_refl.
      + destruct (load_rows load' l) as [l1' oe1']. destruct (load_rows load l) as [l1 oe1].
        cbn [fst snd] in *. subst. right. exists e, rest. split; reflexivity.
    - destruct f' as [l' oe']. destruct f as [l oe]. cbn [fst snd] in *. subst. unfold trows.
      rewrite load_rows_app.
      destruct (load_rows_fault l') as [E|(e1 & rest1 & He1 & Hr1)].
      + rewrite E. destruct (load_rows load l') as [la [ea|]].
        * right. exists ea, []. cbn [fst snd]. split; [reflexivity|]. rewrite app_nil_r. reflexivity.
        * destruct (load_rows load rest) as [lb oeb]. right. exists e, lb. split; reflexivity.
      + destruct (load_rows load' l') as [la' oea']. destruct (load_rows load l') as [la oea].
        cbn [fst snd] in *. subst. right. exists e1.
        destruct oea as [ea|].
        * exists rest1. split; reflexivity.
        * destruct (load_rows load rest) as [lb oeb]. exists (rest1 ++ lb). cbn [fst snd].
          split; [reflexivity|]. rewrite app_assoc. reflexivity.
  Qed.
End Fault.

(* ---- instantiation: two pagers ---- *)
Section PagerFault.
  Variables pg' pg : Z -> res (list byte).
  Variables op' op : Z -> res page.
  Variable npages : nat.
  Hypothesis Hpg : forall n, le_res (pg' n) (pg n).
  Hypothesis Hop : forall n, le_res (op' n) (op n).

  Lemma db_page_le n : le_res (db_page pg' n) (db_page pg n).
  Proof. unfold db_page. destruct (n <? 1); [left; reflexivity|apply Hpg]. Qed.

  Definition openp_le := Hop.

  Lemma ovf_walk_le : forall fuel seen to plen ovf,
    le_res (ovf_walk pg' fuel seen to plen ovf) (ovf_walk pg fuel seen to plen ovf).
  Proof.
    induction fuel as [|f IH]; intros seen to plen ovf; cbn [ovf_walk].
    - left. reflexivity.
    - destruct (ovf =? 0); [left; reflexivity|].
      destruct (plen <=? len to); [left; reflexivity|].
      destruct (existsb (Z.eqb ovf) seen); [left; reflexivity|].
      destruct (db_page_le ovf) as [->|(e & ->)]; [|right; exists e; reflexivity].
      destruct (db_page pg ovf) as [buf|e]; cbn [bind]; [|left; reflexivity].
      destruct (slice_to buf 4) as [nxt|e]; cbn [bind]; [|left; reflexivity].
      destruct (slice_from buf 4) as [rest|e]; cbn [bind]; [|left; reflexivity].
      apply IH.
  Qed.

  Lemma load_le pl : le_res (load pg' npages pl) (load pg npages pl).
  Proof.
    unfold load, add_overflow.
    destruct (ovf_walk_le (S npages) [] (pl_local pl) (pl_len pl) (pl_ovf pl)) as [->|(e & ->)];
      [left; reflexivity|right; exists e; reflexivity].
  Qed.

  (* the rows a scan sees under the faulty pager: the fault-free rows, or a
     prefix of them followed by an error *)
  Theorem table_rows_fault root :
    flat_le (table_rows pg' op' npages root) (table_rows pg op npages root).
  Proof.
    unfold table_rows.
    destruct (open_table_le _ _ _ openp_le root) as [->|(e & ->)]; [|apply flat_le_err].
    destruct (open_table _ op root) as [p|e]; [|apply flat_le_refl].
    apply trows_fault; [apply load_le|]. apply tflat_fault. apply openp_le.
  Qed.

  Theorem index_rows_fault root :
    flat_le (index_rows pg' op' npages root) (index_rows pg op npages root).
  Proof.
    unfold index_rows.
    destruct (open_index_le _ _ _ openp_le root) as [->|(e & ->)]; [|apply flat_le_err].
    destruct (open_index _ op root) as [p|e]; [|apply flat_le_refl].
    apply iflat_fault; [apply openp_le|apply load_le].
  Qed.

  (* C12 for the full scans, with the row-collecting callback: the faulty run
     either equals the fault-free run or fails having delivered a prefix *)
  Corollary table_scan_fault root :
    let run p := table_scan (fst p) (snd p) npages _ root (fun k r s => stop_after None (k, r) s) [] in
    run (pg', op') = run (pg, op) \/
    exists e rest, fst (run (pg', op')) = Fail e /\ snd (run (pg, op)) = rest ++ snd (run (pg', op')).
  Proof.
    intros run; subst run; cbv beta; cbn [fst snd]. rewrite !table_scan_rows.
    destruct (table_rows_fault root) as [->|(e & rest & He & Hr)]; [left; reflexivity|].
    right. destruct (table_rows pg' op' npages root) as [l' oe']. destruct (table_rows pg op npages root) as [l oe].
    cbn [fst snd] in *. subst. unfold run_flat. cbn [fst snd].
    assert (Hx: forall l s, run_cb (fun (x : Z * record) s => stop_after None (fst x, snd x) s) l s = run_cb (stop_after None) l s)
      by (intros l0 s0; apply run_cb_ext; intros [k r] s1; reflexivity).
    rewrite !Hx.
    rewrite !stop_after_none. cbn [Btree.andthen fst snd].
    exists e. exists (rev rest). split; [reflexivity|].
    destruct oe; cbn [fst snd]; rewrite rev_app_distr, !app_nil_r; reflexivity.
  Qed.

  Corollary index_scan_fault root :
    let run p := index_scan (fst p) (snd p) npages _ root (stop_after None) [] in
    run (pg', op') = run (pg, op) \/
    exists e rest, fst (run (pg', op')) = Fail e /\ snd (run (pg, op)) = rest ++ snd (run (pg', op')).
  Proof.
    intros run; subst run; cbv beta; cbn [fst snd]. rewrite !index_scan_rows.
    destruct (index_rows_fault root) as [->|(e & rest & He & Hr)]; [left; reflexivity|].
    right. destruct (index_rows pg' op' npages root) as [l' oe']. destruct (index_rows pg op npages root) as [l oe].
    cbn [fst snd] in *. subst. unfold run_flat. cbn [fst snd].
    rewrite !stop_after_none. cbn [Btree.andthen fst snd].
    exists e. exists (rev rest). split; [reflexivity|].
    destruct oe; cbn [fst snd]; rewrite rev_app_distr, !app_nil_r; reflexivity.
  Qed.
End PagerFault.

(* the page store of a pager inherits the failures of the pager *)
Lemma openp_of_le pg' pg U : (forall n, le_res (pg' n) (pg n)) ->
  forall n, le_res (openp pg' U n) (openp pg U n).
Proof.
  intros H n. unfold openp.
  destruct (db_page_le pg' pg H n) as [->|(e & ->)]; [left; reflexivity|right; exists e; reflexivity].
Qed.
