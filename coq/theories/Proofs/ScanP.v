(* Early stop (C17) and ordering / uniqueness statements (C01, C13) for the
   operations of db/low.go, as corollaries of LowP and DeliverP. *)
From SQ Require Import Model.Base Model.Varint Model.Record Model.Payload Model.Btree
     Model.Page Model.Cmp Model.Low Spec.Flat Spec.Deliver
     Proofs.SearchP Proofs.BtreeP Proofs.BtreeMinP Proofs.DeliverP Proofs.LowP.
From Coq Require Import ZifyBool ZifyNat.

Section ScanP.
  Variable pg : Z -> res (list byte).
  Variable op : Z -> res page.   (* Database.openPage: the parsed page n *)
  Variable npages : nat.

  Definition tcollect (k : option nat) (rowid : Z) (r : record) (s : list (Z * record)) :=
    stop_after k (rowid, r) s.

  Lemma run_cb_tcollect k l s :
    run_cb (fun (x : Z * record) s => tcollect k (fst x) (snd x) s) l s = run_cb (stop_after k) l s.
  Proof. apply run_cb_ext. intros [a b] s0. reflexivity. Qed.

  (* full scans: every row, once, in order *)
  Theorem table_scan_all root l :
    table_rows pg op npages root = (l, None) ->
    table_scan pg op npages _ root (tcollect None) [] = (Continue, rev l).
  Proof.
    intros H. rewrite table_scan_rows, H, outcome_run_flat_none, run_cb_tcollect, stop_after_none.
    rewrite app_nil_r. reflexivity.
  Qed.

  Theorem index_scan_all root l :
    index_rows pg op npages root = (l, None) ->
    index_scan pg op npages _ root (stop_after None) [] = (Continue, rev l).
  Proof.
    intros H. rewrite index_scan_rows, H, outcome_run_flat_none, stop_after_none.
    rewrite app_nil_r. reflexivity.
  Qed.

  (* a scan that meets an error has delivered the rows before it *)
  Theorem table_scan_err root l e :
    table_rows pg op npages root = (l, Some e) ->
    table_scan pg op npages _ root (tcollect None) [] = (Fail e, rev l).
  Proof.
    intros H. rewrite table_scan_rows, H. unfold run_flat. cbn [fst snd].
    rewrite run_cb_tcollect, stop_after_none. rewrite app_nil_r. reflexivity.
  Qed.

  Theorem index_scan_err root l e :
    index_rows pg op npages root = (l, Some e) ->
    index_scan pg op npages _ root (stop_after None) [] = (Fail e, rev l).
  Proof.
    intros H. rewrite index_scan_rows, H. unfold run_flat. cbn [fst snd].
    rewrite stop_after_none. rewrite app_nil_r. reflexivity.
  Qed.

  (* ---- early stop ---- *)
  Theorem table_scan_stop root l oe k : (1 <= k <= length l)%nat ->
    table_rows pg op npages root = (l, oe) ->
    table_scan pg op npages _ root (tcollect (Some k)) [] = (Stop, rev (firstn k l)).
  Proof.
    intros Hk H. rewrite table_scan_rows, H. unfold run_flat. cbn [fst snd].
    rewrite run_cb_tcollect, stop_after_firstn by exact Hk. reflexivity.
  Qed.

  Theorem index_scan_stop root l oe k : (1 <= k <= length l)%nat ->
    index_rows pg op npages root = (l, oe) ->
    index_scan pg op npages _ root (stop_after (Some k)) [] = (Stop, rev (firstn k l)).
  Proof.
    intros Hk H. rewrite index_scan_rows, H. unfold run_flat. cbn [fst snd].
    rewrite stop_after_firstn by exact Hk. reflexivity.
  Qed.

  Theorem index_scan_min_stop root from l k :
    index_rows pg op npages root = (l, None) -> mono (search from) l ->
    (1 <= k <= length (drop_lt (search from) l))%nat ->
    index_scan_min pg op npages _ root from (stop_after (Some k)) []
    = (Stop, rev (firstn k (drop_lt (search from) l))).
  Proof.
    intros H Hm Hk. rewrite (index_scan_min_rows _ _ _ _ _ _ _ l) by assumption.
    apply stop_after_firstn. exact Hk.
  Qed.

  Theorem index_scan_range_stop root from to l k :
    index_rows pg op npages root = (l, None) -> mono (search from) l ->
    let seg := take_while (fun r => negb (search to r)) (drop_lt (search from) l) in
    (1 <= k <= length seg)%nat ->
    outcome (index_scan_range pg op npages _ root from to (stop_after (Some k)) [])
    = (None, rev (firstn k seg)).
  Proof.
    intros H Hm seg Hk. rewrite (index_scan_range_rows _ _ _ _ _ _ _ _ l) by assumption.
    fold seg. rewrite stop_after_firstn by exact Hk. reflexivity.
  Qed.

  Theorem index_scan_eq_stop root key l k :
    index_rows pg op npages root = (l, None) -> mono (search key) l ->
    let seg := take_while (equals key) (drop_lt (search key) l) in
    (1 <= k <= length seg)%nat ->
    outcome (index_scan_eq pg op npages _ root key (stop_after (Some k)) [])
    = (None, rev (firstn k seg)).
  Proof.
    intros H Hm seg Hk. rewrite (index_scan_eq_rows _ _ _ _ _ _ _ l) by assumption.
    fold seg. rewrite stop_after_firstn by exact Hk. reflexivity.
  Qed.

  (* the collecting forms of C13 *)
  Theorem index_scan_min_all root from l :
    index_rows pg op npages root = (l, None) -> mono (search from) l ->
    index_scan_min pg op npages _ root from (stop_after None) []
    = (Continue, rev (drop_lt (search from) l)).
  Proof.
    intros H Hm. rewrite (index_scan_min_rows _ _ _ _ _ _ _ l) by assumption.
    rewrite stop_after_none, app_nil_r. reflexivity.
  Qed.

  Theorem index_scan_range_all root from to l :
    index_rows pg op npages root = (l, None) -> mono (search from) l ->
    outcome (index_scan_range pg op npages _ root from to (stop_after None) [])
    = (None, rev (take_while (fun r => negb (search to r)) (drop_lt (search from) l))).
  Proof.
    intros H Hm. rewrite (index_scan_range_rows _ _ _ _ _ _ _ _ l) by assumption.
    rewrite stop_after_none, app_nil_r. reflexivity.
  Qed.

  Theorem index_scan_eq_all root key l :
    index_rows pg op npages root = (l, None) -> mono (search key) l ->
    outcome (index_scan_eq pg op npages _ root key (stop_after None) [])
    = (None, rev (take_while (equals key) (drop_lt (search key) l))).
  Proof.
    intros H Hm. rewrite (index_scan_eq_rows _ _ _ _ _ _ _ l) by assumption.
    rewrite stop_after_none, app_nil_r. reflexivity.
  Qed.
End ScanP.

(* ---- the drop_lt / take_while segments as filters of a sorted list ---- *)
Section Segments.
  Variable A : Type.
  Variables ge eq : A -> bool.      (* Search key, Equals key *)

  (* [l] is laid out as  (not ge)*  (ge and eq)*  (ge and not eq)*  : what
     sortedness by the index order gives for a key whose flags agree *)
  Definition three_runs (l : list A) : Prop :=
    exists lt_ eq_ gt_, l = lt_ ++ eq_ ++ gt_ /\
      Forall (fun x => ge x = false /\ eq x = false) lt_ /\
      Forall (fun x => ge x = true /\ eq x = true) eq_ /\
      Forall (fun x => ge x = true /\ eq x = false) gt_.

  Lemma three_runs_mono l : three_runs l -> mono ge l.
  Proof.
    intros (a & b & c & -> & Ha & Hb & Hc). exists a, (b ++ c). split; [reflexivity|]. split.
    - eapply Forall_impl; [|exact Ha]. intros x [H _]. exact H.
    - apply Forall_app. split; (eapply Forall_impl; [|eassumption]); intros x [H _]; exact H.
  Qed.

  Lemma take_while_all_then (p : A -> bool) a b :
    Forall (fun x => p x = true) a -> (match b with [] => True | y :: _ => p y = false end) ->
    take_while p (a ++ b) = a.
  Proof.
    intros Ha Hb. induction Ha as [|x a Hx Ha IH]; cbn [app take_while].
    - destruct b as [|y b]; cbn [take_while]; [reflexivity|]. rewrite Hb. reflexivity.
    - rewrite Hx. f_equal. exact IH.
  Qed.

  Theorem eq_segment_is_filter l : three_runs l ->
    take_while eq (drop_lt ge l) = filter eq l.
  Proof.
    intros (a & b & c & -> & Ha & Hb & Hc).
    rewrite drop_lt_allf by (eapply Forall_impl; [|exact Ha]; intros x [H _]; exact H).
    assert (Hd: drop_lt ge (b ++ c) = b ++ c).
    { destruct b as [|x b]; cbn [app].
      - destruct c as [|y c]; [reflexivity|]. cbn [drop_lt]. inversion Hc as [|? ? [Hy _] _]; subst.
        rewrite Hy. reflexivity.
      - cbn [drop_lt]. inversion Hb as [|? ? [Hx _] _]; subst. rewrite Hx. reflexivity. }
    rewrite Hd. rewrite take_while_all_then.
    - rewrite !filter_app.
      assert (Fa: filter eq a = []).
      { clear -Ha. induction Ha as [|x a [_ Hx] _ IH]; cbn [filter]; [reflexivity|]. rewrite Hx. exact IH. }
      assert (Fc: filter eq c = []).
      { clear -Hc. induction Hc as [|x c [_ Hx] _ IH]; cbn [filter]; [reflexivity|]. rewrite Hx. exact IH. }
      assert (Fb: filter eq b = b).
      { clear -Hb. induction Hb as [|x b [_ Hx] _ IH]; cbn [filter]; [reflexivity|]. rewrite Hx. f_equal. exact IH. }
      rewrite Fa, Fb, Fc, app_nil_r. reflexivity.
    - eapply Forall_impl; [|exact Hb]. intros x [_ H]. exact H.
    - destruct c as [|y c]; [exact I|]. inversion Hc as [|? ? [_ Hy] _]; subst. exact Hy.
  Qed.

  (* the from-key suffix is the filter by "not less than the key" *)
  Theorem min_suffix_is_filter l : mono ge l -> drop_lt ge l = filter ge l.
  Proof.
    intros (a & b & -> & Ha & Hb). rewrite drop_lt_allf by exact Ha. rewrite filter_app.
    assert (Fa: filter ge a = []).
    { clear -Ha. induction Ha as [|x a Hx _ IH]; cbn [filter]; [reflexivity|]. rewrite Hx. exact IH. }
    assert (Fb: filter ge b = b).
    { clear -Hb. induction Hb as [|x b Hx _ IH]; cbn [filter]; [reflexivity|]. rewrite Hx. f_equal. exact IH. }
    rewrite Fa, Fb. cbn [app].
    destruct b as [|x b]; [reflexivity|]. cbn [drop_lt]. inversion Hb; subst.
    match goal with H : ge x = true |- _ => rewrite H end. reflexivity.
  Qed.
End Segments.
