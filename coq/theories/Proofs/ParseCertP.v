(* C16 (certificate check; the theorems are in ParseTermP.v): the driver loop of the generated parser TERMINATES on every token list, and never
   reduces below the bottom of its stack.

   Gen/ParserCert.v is an untrusted certificate computed from THIS run's tables:
     cert_edges  pairs (b, s): state s may lie directly on state b in the state stack
     cert_depth  for each state, a lower bound on the number of states under it
     cert_rank   rank(s, lookahead) such that |stack| + rank(top, lookahead) strictly
                 decreases with every reduction
   [cert_ok] checks, by computation over the translated tables, that the edges are closed
   under every shift and every reduction the tables prescribe, that the depth bound covers
   the length of every reduction, and that every reduction lowers the potential.  From that
   one finite fact the theorems below follow for EVERY token list by an invariant of the
   loop (the stack is a path of certificate edges from state 0) and a decreasing measure. *)
From Coq Require Import ZArith List String Bool Lia.
From SQ Require Import Gen.ParserTables Gen.ParserCert Model.SqlParse Model.ParseBudget Proofs.ParseP.
Import ListNotations.
Open Scope Z_scope.

Definition inP (b s : Z) : bool := existsb (fun e => (fst e =? b) && (snd e =? s)) cert_edges.
Definition reachl : list Z := 0 :: map snd cert_edges.
Definition preds (s : Z) : list Z := map fst (filter (fun e => snd e =? s) cert_edges).
Fixpoint predL (L : nat) (l : list Z) : list Z :=
  match L with O => l | S k => predL k (flat_map preds l) end.
Definition toks_opt : list (option Z) := None :: map Some tokrange.
Lemma nthL_in {A} (l : list A) i x : nthL l i = Some x -> In x l.
Proof. unfold nthL. destruct (i <? 0); [discriminate|]. apply nth_error_In. Qed.
Definition depth (s : Z) : Z := match nthZ cert_depth s with Some d => d | None => 0 end.

Definition closed_cell (s : Z) (t : option Z) : bool :=
  match decide s t with
  | DShift a => inP s a
  | DReduce p =>
    match nthZ yyR1 p, nthZ yyR2 p with
    | Some lhs, Some L =>
      (0 <=? L) && (L <=? depth s) &&
      forallb (fun b => match goto_state lhs b with
                        | Some n => inP b n && (rank n t + 2 <=? rank s t + L)
                        | None => false
                        end) (predL (Z.to_nat L) [s])
    | _, _ => false
    end
  | _ => true
  end.

Definition eofc : Z := match lex1 0 with Some t => t | None => 0 end.

(* the five finite facts, each by computation over this run's tables and certificate
   (stated directly: going through a defined constant makes the kernel's conversion at Qed very slow) *)
Lemma cert_closed_fact : forallb (fun s => forallb (closed_cell s) toks_opt) reachl = true.
Proof. vm_compute. reflexivity. Qed.
Lemma cert_depths_fact : forallb (fun e => depth (snd e) <=? depth (fst e) + 1) cert_edges = true.
Proof. vm_compute. reflexivity. Qed.
Lemma cert_depth0_fact : (depth 0 <=? 0) = true.
Proof. vm_compute. reflexivity. Qed.
Lemma cert_ranks_fact : forallb (fun r => (0 <=? r) && (r <=? rmax)) (List.concat cert_rank) = true.
Proof. vm_compute. reflexivity. Qed.
Lemma cert_noeofshift_fact :
  forallb (fun s => match decide s (Some eofc) with DShift _ => false | _ => true end) (zrange nstates) = true.
Proof. vm_compute. reflexivity. Qed.
